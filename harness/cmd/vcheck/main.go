// vcheck runs one property's check: `vcheck Cxx --tier quick|thorough`,
// `vcheck Cxx --replay file`, or (internal) `vcheck --child Cxx cases out`.
package main

import (
	"fmt"
	"os"

	"verif/core"
	_ "verif/prop"
)

func main() {
	a := os.Args[1:]
	if len(a) >= 4 && a[0] == "--child" {
		core.ChildMain(a[1], a[2], a[3])
		return
	}
	if len(a) < 1 {
		fmt.Fprintln(os.Stderr, "usage: vcheck Cxx [--tier quick|thorough] [--replay file]")
		os.Exit(3)
	}
	prop := a[0]
	tier := os.Getenv("VERIF_TIER")
	replay := ""
	for i := 1; i < len(a); i++ {
		switch a[i] {
		case "--tier":
			i++
			tier = a[i]
		case "--replay":
			i++
			replay = a[i]
		case "quick", "thorough":
			tier = a[i]
		}
	}
	if tier != "thorough" {
		tier = "quick"
	}
	os.Exit(core.ParentMain(prop, tier, replay))
}
