// Command plandump prints the planned case with a given seed (debugging aid).
package main

import (
	"encoding/json"
	"fmt"
	"os"
	"strconv"

	"verif/core"
	_ "verif/prop"
)

func main() {
	prop, tier := os.Args[1], os.Args[2]
	vs, _ := strconv.ParseInt(os.Args[3], 10, 64)
	want, _ := strconv.ParseInt(os.Args[4], 10, 64)
	for i, c := range core.Props[prop].Plan(vs, tier) {
		if c.Seed == want {
			c.ID = i
			b, _ := json.Marshal([]core.Case{c})
			fmt.Println(string(b))
		}
	}
}
