//go:build race

package mon

// RaceEnabled reports whether this binary was built with the race detector.
const RaceEnabled = true
