// Package mon holds the monitors' shared runtime pieces: the interleaving
// widening hook with its trace, fault-injecting readers and writers.
package mon

import (
	"fmt"
	"hash/fnv"
	"math/rand"
	"os"
	"runtime"
	"sync"
	"sync/atomic"
	"time"

	"github.com/biogo/hts/bgzf"
)

// Ev is one hook event.
type Ev struct {
	Point string
	A, B  int64
}

// Tracer perturbs scheduling at the library's suspension points and records
// which points were passed in which order. It never decides a verdict.
type Tracer struct {
	mu     sync.Mutex
	rng    *rand.Rand
	level  int // 0 trace only, 1 yields, 2 yields and short sleeps, 3 longer sleeps
	events []Ev
	// Bias, when non-nil, returns an extra delay for a point.
	Bias func(point string, a, b int64) time.Duration
}

var cur atomic.Pointer[Tracer]

// The dispatcher is installed once, before any library call of the process.
// With no tracer installed it does one atomic load and returns.
func init() { bgzf.VerifHook = dispatch }

func dispatch(point string, a, b int64) {
	t := cur.Load()
	if t == nil {
		return
	}
	t.hit(point, a, b)
}

// Begin installs a tracer for the current case.
func Begin(seed int64, level int) *Tracer {
	t := &Tracer{rng: rand.New(rand.NewSource(seed)), level: level}
	cur.Store(t)
	return t
}

// Detached returns a tracer that is not installed: it records nothing.
func Detached() *Tracer { return &Tracer{rng: rand.New(rand.NewSource(1))} }

// End removes the tracer; late events from leaked goroutines are dropped.
func End() { cur.Store(nil) }

var traceOut = os.Getenv("VERIF_TRACE") != ""

func (t *Tracer) hit(point string, a, b int64) {
	if traceOut {
		fmt.Fprintf(os.Stderr, "HOOK %s %d %d\n", point, a, b)
	}
	t.mu.Lock()
	if len(t.events) < 4096 {
		t.events = append(t.events, Ev{point, a, b})
	}
	var d time.Duration
	act := 0
	if t.level > 0 {
		x := t.rng.Intn(100)
		switch {
		case x < 55:
		case x < 85:
			act = 1
		default:
			if t.level >= 2 {
				act = 2
				max := 300
				if t.level >= 3 {
					max = 2500
				}
				d = time.Duration(20+t.rng.Intn(max)) * time.Microsecond
			} else {
				act = 1
			}
		}
	}
	if t.Bias != nil {
		if bd := t.Bias(point, a, b); bd > 0 {
			act = 2
			d += bd
		}
	}
	t.mu.Unlock()
	switch act {
	case 1:
		runtime.Gosched()
	case 2:
		time.Sleep(d)
	}
}

// Events returns a copy of the trace.
func (t *Tracer) Events() []Ev {
	t.mu.Lock()
	defer t.mu.Unlock()
	return append([]Ev(nil), t.events...)
}

// Shape is a hash of the order in which points were passed (arguments
// included), i.e. a fingerprint of the interleaving that was observed.
func (t *Tracer) Shape() string {
	t.mu.Lock()
	defer t.mu.Unlock()
	h := fnv.New64a()
	for _, e := range t.events {
		h.Write([]byte(e.Point))
		var b [16]byte
		for i := 0; i < 8; i++ {
			b[i] = byte(e.A >> (8 * i))
			b[8+i] = byte(e.B >> (8 * i))
		}
		h.Write(b[:])
	}
	const hexd = "0123456789abcdef"
	s := h.Sum64()
	out := make([]byte, 16)
	for i := range out {
		out[i] = hexd[(s>>(60-4*uint(i)))&15]
	}
	return string(out)
}

// Count returns how many times a point was passed.
func (t *Tracer) Count(point string) int {
	t.mu.Lock()
	defer t.mu.Unlock()
	n := 0
	for _, e := range t.events {
		if e.Point == point {
			n++
		}
	}
	return n
}
