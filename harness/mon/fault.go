package mon

import (
	"errors"
	"io"
	"sync"
	"sync/atomic"
	"time"
)

// ErrInjected is the error returned by injected faults.
var ErrInjected = errors.New("injected I/O fault")

// RecWriter is the underlying writer handed to a bgzf.Writer. It records the
// length delivered after every Write returns (the points at which a crash
// would leave a file), can delay writes and can fail from a given call on.
type RecWriter struct {
	mu      sync.Mutex
	buf     []byte
	Calls   int
	Snaps   []Snap
	Offered *int64 // bytes offered to the API so far (atomic), may be nil

	FailAt  int  // 1-based index of the first failing Write; 0 = never
	Partial bool // the failing call accepts half of its data first
	Delay   func(call int) time.Duration
	// FailOnce makes only call FailAt fail; later calls succeed again.
	FailOnce bool
	// FullCount makes the failing call accept all of its data and return
	// (len(p), error): the boundary case of "error after partial data".
	FullCount bool
	Failed   bool
}

// Snap is the state after one underlying Write returned.
type Snap struct {
	Len     int   // bytes delivered so far
	Offered int64 // bytes offered to the API when this write returned
	N       int   // size of this write
}

func (w *RecWriter) Write(p []byte) (int, error) {
	w.mu.Lock()
	w.Calls++
	call := w.Calls
	delay := w.Delay
	w.mu.Unlock()
	if delay != nil {
		if d := delay(call); d > 0 {
			time.Sleep(d)
		}
	}
	w.mu.Lock()
	defer w.mu.Unlock()
	if w.FailAt > 0 && (call == w.FailAt || (call > w.FailAt && !w.FailOnce)) {
		w.Failed = true
		n := 0
		if w.Partial && call == w.FailAt {
			n = len(p) / 2
			w.buf = append(w.buf, p[:n]...)
		}
		if w.FullCount && call == w.FailAt {
			n = len(p)
			w.buf = append(w.buf, p...)
		}
		return n, ErrInjected
	}
	w.buf = append(w.buf, p...)
	s := Snap{Len: len(w.buf), N: len(p)}
	if w.Offered != nil {
		s.Offered = atomic.LoadInt64(w.Offered)
	}
	w.Snaps = append(w.Snaps, s)
	return len(p), nil
}

// Bytes returns what has been delivered so far.
func (w *RecWriter) Bytes() []byte {
	w.mu.Lock()
	defer w.mu.Unlock()
	return append([]byte(nil), w.buf...)
}

func (w *RecWriter) Len() int {
	w.mu.Lock()
	defer w.mu.Unlock()
	return len(w.buf)
}

// FaultReader is an io.ReadSeeker (optionally also io.ByteReader through
// FaultByteReader) over a byte slice whose k-th underlying call fails.
type FaultReader struct {
	mu    sync.Mutex
	data  []byte
	pos   int64
	Calls int // Read, ReadByte and Seek calls so far

	FailAt   int  // 1-based call index of the fault; 0 = never
	Partial  bool // a failing Read returns some data together with the error
	SeekOnly bool // only Seek calls count and fail
	Sticky   bool // every call from FailAt on fails (otherwise only that one)
	Delay    time.Duration
	Hit      bool
	HitKind  string
	// MaxRead, when > 0, is the most a Read delivers: with a buffered
	// consumer the call index then walks through the stream in small steps.
	MaxRead int
}

func NewFaultReader(data []byte) *FaultReader { return &FaultReader{data: data} }

func (r *FaultReader) fault(kind string) bool {
	if r.SeekOnly && kind != "seek" {
		return false
	}
	r.Calls++
	if r.FailAt > 0 && (r.Calls == r.FailAt || (r.Sticky && r.Calls > r.FailAt)) {
		r.Hit = true
		if r.HitKind == "" {
			r.HitKind = kind
		}
		return true
	}
	return false
}

func (r *FaultReader) Read(p []byte) (int, error) {
	r.mu.Lock()
	f := r.fault("read")
	d := r.Delay
	r.mu.Unlock()
	if f && d > 0 {
		time.Sleep(d)
	}
	r.mu.Lock()
	defer r.mu.Unlock()
	if r.MaxRead > 0 && len(p) > r.MaxRead {
		p = p[:r.MaxRead]
	}
	if f {
		if r.Partial && r.pos < int64(len(r.data)) && len(p) > 1 {
			n := copy(p[:len(p)/2], r.data[r.pos:])
			r.pos += int64(n)
			return n, ErrInjected
		}
		return 0, ErrInjected
	}
	if r.pos >= int64(len(r.data)) {
		return 0, io.EOF
	}
	n := copy(p, r.data[r.pos:])
	r.pos += int64(n)
	return n, nil
}

func (r *FaultReader) Seek(off int64, whence int) (int64, error) {
	r.mu.Lock()
	f := r.fault("seek")
	d := r.Delay
	r.mu.Unlock()
	if f && d > 0 {
		time.Sleep(d)
	}
	r.mu.Lock()
	defer r.mu.Unlock()
	if f {
		return 0, ErrInjected
	}
	np := r.pos
	switch whence {
	case 0:
		np = off
	case 1:
		np += off
	case 2:
		np = int64(len(r.data)) + off
	}
	if np < 0 {
		// like a file: the position is unchanged by a failed seek
		return 0, errors.New("negative position")
	}
	r.pos = np
	return r.pos, nil
}

// FaultByteReader adds ReadByte so that the library does not wrap the
// reader in a bufio.Reader and every underlying call is a fault point.
type FaultByteReader struct{ *FaultReader }

func (r FaultByteReader) ReadByte() (byte, error) {
	r.mu.Lock()
	defer r.mu.Unlock()
	if r.fault("readbyte") {
		return 0, ErrInjected
	}
	if r.pos >= int64(len(r.data)) {
		return 0, io.EOF
	}
	b := r.data[r.pos]
	r.pos++
	return b, nil
}
