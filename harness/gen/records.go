package gen

import (
	"fmt"
	"math"
	"math/rand"

	"verif/oracle"
)

// RecOpts steer the record generator.
type RecOpts struct {
	NRefs    int
	SAMSafe  bool // only records SAM text can express and that round-trip by design
	NoBigCig bool // no 65535-op CIGARs (keeps cases small)
	MaxSeq   int  // 0 = default
	Sorted   bool // unused by Rand; see SortedRecs
}

const nameChars = "!#$%&'()+,-./0123456789:;<>?ABCDEFGHIJKLMNOPQRSTUVWXYZ[]^_`abcdefghijklmnopqrstuvwxyz{|}~"

func randName(rng *rand.Rand) string {
	var n int
	switch rng.Intn(8) {
	case 0:
		n = 1
	case 1:
		n = 254
	case 2:
		n = 253
	default:
		n = 1 + rng.Intn(40)
	}
	b := make([]byte, n)
	for i := range b {
		b[i] = nameChars[rng.Intn(len(nameChars))]
	}
	return string(b)
}

func randSeq(rng *rand.Rand, n int, samSafe bool) string {
	b := make([]byte, n)
	for i := range b {
		if samSafe && rng.Intn(8) != 0 {
			b[i] = "ACGTN"[rng.Intn(5)]
		} else {
			b[i] = oracle.SeqCodes[rng.Intn(16)]
		}
	}
	return string(b)
}

var auxInts = map[byte][2]int64{'c': {math.MinInt8, math.MaxInt8}, 'C': {0, math.MaxUint8}, 's': {math.MinInt16, math.MaxInt16}, 'S': {0, math.MaxUint16}, 'i': {math.MinInt32, math.MaxInt32}, 'I': {0, math.MaxUint32}}

func randIntIn(rng *rand.Rand, lo, hi int64) int64 {
	switch rng.Intn(6) {
	case 0:
		return lo
	case 1:
		return hi
	case 2:
		return 0
	case 3:
		if lo < 0 {
			return -1
		}
		return 1
	}
	return lo + rng.Int63n(hi-lo+1)
}

func randFloat(rng *rand.Rand, samSafe bool) float32 {
	switch rng.Intn(10) {
	case 0:
		return 0
	case 1:
		return float32(math.Inf(1 - 2*rng.Intn(2)))
	case 2:
		return math.MaxFloat32
	case 3:
		return math.SmallestNonzeroFloat32
	case 4:
		return float32(rng.Intn(2000000) - 1000000)
	case 5:
		return -1.5e-7
	}
	f := math.Float32frombits(rng.Uint32())
	if f != f { // NaN does not compare equal to itself; keep it out
		return 1.25
	}
	return f
}

// RandAux generates one optional field of the given type (0 = random type).
func RandAux(rng *rand.Rand, typ byte, samSafe bool, tagN int) oracle.AuxF {
	types := "AcCsSiIfZHB"
	if typ == 0 {
		typ = types[rng.Intn(len(types))]
	}
	a := oracle.AuxF{Type: typ}
	a.Tag = [2]byte{"XYZUVW"[tagN%6], "0123456789abcdefghijklmnop"[(tagN/6)%26]}
	switch typ {
	case 'A':
		a.Int = int64(33 + rng.Intn(94))
	case 'c', 'C', 's', 'S', 'i', 'I':
		r := auxInts[typ]
		a.Int = randIntIn(rng, r[0], r[1])
	case 'f':
		a.F = randFloat(rng, samSafe)
	case 'Z':
		n := []int{0, 1, 5, 40, 300}[rng.Intn(5)]
		a.Data = make([]byte, n)
		for i := range a.Data {
			if samSafe {
				a.Data[i] = byte(32 + rng.Intn(95))
			} else {
				a.Data[i] = byte(1 + rng.Intn(255))
				if a.Data[i] == '\t' || a.Data[i] == '\n' {
					a.Data[i] = ' '
				}
			}
		}
	case 'H':
		n := []int{0, 1, 4, 33}[rng.Intn(4)]
		a.Data = make([]byte, n)
		for i := range a.Data {
			a.Data[i] = byte(1 + rng.Intn(255)) // payload without NUL
		}
	case 'B':
		a.Sub = "cCsSiIf"[rng.Intn(7)]
		n := []int{0, 1, 2, 7, 100, 1500}[rng.Intn(6)]
		if a.Sub == 'f' {
			a.Flts = make([]float32, n)
			for i := range a.Flts {
				a.Flts[i] = randFloat(rng, samSafe)
			}
		} else {
			r := auxInts[a.Sub]
			a.Ints = make([]int64, n)
			for i := range a.Ints {
				a.Ints[i] = randIntIn(rng, r[0], r[1])
			}
		}
	}
	return a
}

// RandRec generates one record.
func RandRec(rng *rand.Rand, o RecOpts, ordinal int) oracle.Rec {
	r := oracle.Rec{Name: randName(rng), RefID: -1, Pos: -1, MateRefID: -1, MatePos: -1}
	r.MapQ = byte(rng.Intn(256))
	r.Flags = uint16(rng.Intn(1 << 16))
	if o.SAMSafe {
		r.Flags &= 0xfff
	}
	if o.NRefs > 0 && rng.Intn(8) != 0 {
		r.RefID = int32(rng.Intn(o.NRefs))
		r.Pos = int32(rng.Intn(1 << 28))
		if rng.Intn(4) == 0 {
			r.Pos = int32((rng.Intn(1<<14) << 14) + rng.Intn(3) - 1)
			if r.Pos < 0 {
				r.Pos = 0
			}
		}
	}
	if o.NRefs > 0 {
		switch rng.Intn(4) {
		case 0:
			r.MateRefID, r.MatePos = r.RefID, r.Pos+int32(rng.Intn(500))
		case 1:
			r.MateRefID = int32(rng.Intn(o.NRefs))
			r.MatePos = int32(rng.Intn(1 << 28))
		}
	}
	r.TLen = int32(rng.Intn(2001) - 1000)
	if rng.Intn(10) == 0 {
		r.TLen = []int32{math.MinInt32, math.MaxInt32, 0}[rng.Intn(3)]
	}
	// sequence
	maxSeq := o.MaxSeq
	if maxSeq == 0 {
		maxSeq = 300
	}
	var sl int
	switch rng.Intn(10) {
	case 0:
		sl = 0
	case 1:
		sl = 1
	case 2:
		sl = 2 + rng.Intn(3)
	case 3:
		// sizes that put the encoded record around the reader's 4096-byte inline buffer
		sl = 2600 + rng.Intn(200)
	case 4:
		if maxSeq > 70000 {
			sl = 66000 + rng.Intn(3000) // larger than one BGZF block
		} else {
			sl = rng.Intn(maxSeq)
		}
	default:
		sl = rng.Intn(maxSeq)
	}
	r.Seq = randSeq(rng, sl, o.SAMSafe)
	switch rng.Intn(3) {
	case 0:
		r.Qual = nil
	default:
		r.Qual = make([]byte, sl)
		for i := range r.Qual {
			if o.SAMSafe || rng.Intn(4) != 0 {
				r.Qual[i] = byte(rng.Intn(94))
			} else {
				r.Qual[i] = byte(rng.Intn(256))
			}
		}
		if o.SAMSafe && sl > 0 {
			// all-0xff means absent; make sure a present quality is not that
			r.Qual[0] = byte(rng.Intn(94))
		}
		if sl == 0 {
			r.Qual = nil
		}
		if o.SAMSafe && sl == 1 && r.Qual[0] == 9 {
			r.Qual[0] = 10 // a lone '*' (phred 9) means "absent" in SAM text
		}
	}
	// CIGAR
	nops := 0
	switch rng.Intn(10) {
	case 0:
		nops = 0
	case 1:
		nops = 1
	case 2:
		if !o.NoBigCig && rng.Intn(6) == 0 {
			nops = []int{65535, 65534, 20000, 16384, 16383}[rng.Intn(5)]
		} else {
			nops = 10 + rng.Intn(200)
		}
	default:
		nops = 1 + rng.Intn(6)
	}
	if o.SAMSafe {
		r.Cigar = consistentCigar(rng, nops, sl)
	} else {
		for i := 0; i < nops; i++ {
			l := rng.Intn(100)
			if rng.Intn(20) == 0 {
				l = []int{0, 1<<28 - 1, 1 << 20}[rng.Intn(3)]
			}
			r.Cigar = append(r.Cigar, oracle.CigOp{Op: rng.Intn(10), Len: l})
		}
	}
	// aux
	naux := []int{0, 0, 1, 2, 5, 12}[rng.Intn(6)]
	for i := 0; i < naux; i++ {
		r.Aux = append(r.Aux, RandAux(rng, 0, o.SAMSafe, i))
	}
	// provenance tag used by merge/index checks
	r.Aux = append(r.Aux, oracle.AuxF{Tag: [2]byte{'z', 'o'}, Type: 'i', Int: int64(ordinal)})
	return r
}

// PadTo pads r with a trailing Z field so that its BAM block_size is exactly
// target; it reports whether that was possible.
func PadTo(r *oracle.Rec, target int) bool {
	cur := len(oracle.EncodeBAMRecord(*r, true)) - 4
	need := target - cur - 4 // tag, type and NUL of the padding field
	if need < 0 {
		return false
	}
	pad := make([]byte, need)
	for i := range pad {
		pad[i] = 'p'
	}
	r.Aux = append(r.Aux, oracle.AuxF{Tag: [2]byte{'z', 'p'}, Type: 'Z', Data: pad})
	return true
}

// consistentCigar builds a CIGAR whose query-consuming lengths sum to seqLen
// (or an empty CIGAR when that is impossible).
func consistentCigar(rng *rand.Rand, nops, seqLen int) []oracle.CigOp {
	if nops == 0 || seqLen == 0 {
		if seqLen == 0 && nops > 0 && rng.Intn(2) == 0 {
			// sequence absent: any CIGAR is allowed
			var c []oracle.CigOp
			for i := 0; i < nops && i < 50; i++ {
				c = append(c, oracle.CigOp{Op: []int{0, 2, 3, 7, 8}[rng.Intn(5)], Len: 1 + rng.Intn(50)})
			}
			return c
		}
		return nil
	}
	if nops > seqLen {
		nops = seqLen
	}
	// split seqLen into k query-consuming parts, interleave non-consuming ops
	k := 1 + rng.Intn(nops)
	cuts := map[int]bool{}
	for len(cuts) < k-1 {
		cuts[1+rng.Intn(seqLen-1)] = true
	}
	var parts []int
	last := 0
	for p := 1; p < seqLen; p++ {
		if cuts[p] {
			parts = append(parts, p-last)
			last = p
		}
	}
	parts = append(parts, seqLen-last)
	var c []oracle.CigOp
	if rng.Intn(4) == 0 {
		l := 1 + rng.Intn(20)
		if rng.Intn(8) == 0 {
			l = 1<<28 - 1
		}
		c = append(c, oracle.CigOp{Op: 5, Len: l})
	}
	for i, p := range parts {
		op := []int{0, 1, 7, 8, 0, 0}[rng.Intn(6)]
		if (i == 0 || i == len(parts)-1) && rng.Intn(3) == 0 {
			op = 4
		}
		c = append(c, oracle.CigOp{Op: op, Len: p})
		if i < len(parts)-1 && rng.Intn(3) == 0 && len(c) < nops+8 {
			l := 1 + rng.Intn(1000)
			if rng.Intn(6) == 0 {
				l = []int{1<<28 - 1, 1<<28 - 2, 1 << 27, 0}[rng.Intn(4)] // the BAM limit of an operation length
			}
			c = append(c, oracle.CigOp{Op: []int{2, 3, 6}[rng.Intn(3)], Len: l})
		}
	}
	if rng.Intn(4) == 0 {
		c = append(c, oracle.CigOp{Op: 5, Len: 1 + rng.Intn(20)})
	}
	// soft clips must be at the ends (possibly inside hard clips): fix interior S
	for i := range c {
		if c[i].Op == 4 {
			first, lastq := -1, -1
			for j := range c {
				if c[j].Op != 5 {
					if first < 0 {
						first = j
					}
					lastq = j
				}
			}
			if i != first && i != lastq {
				c[i].Op = 0
			}
		}
	}
	return c
}

// RandRefs generates n reference names and lengths.
func RandRefs(rng *rand.Rand, n int) []oracle.RefSpec {
	var refs []oracle.RefSpec
	for i := 0; i < n; i++ {
		name := fmt.Sprintf("chr%d", i+1)
		if rng.Intn(3) == 0 {
			name = fmt.Sprintf("ref_%c%d.x", 'a'+rune(rng.Intn(26)), i)
		}
		l := int32(1 + rng.Intn(1<<29))
		if rng.Intn(3) == 0 {
			l = math.MaxInt32
		}
		refs = append(refs, oracle.RefSpec{Name: name, Len: l})
	}
	return refs
}
