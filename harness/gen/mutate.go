package gen

import (
	"encoding/binary"
	"math/rand"
)

// lenVals: small, boundary and sign values, plus values whose product with
// 3, 4, 8 or 16 wraps around 32 bits (size computations).
var lenVals = []uint32{0, 1, 2, 0xffffffff, 0xfffffffe, 0x80000000, 255, 256, 65535, 65536, 1 << 20,
	0x55555556, 0x40000000, 0x20000001, 0x10000001, 21, 62, 63}

// typeLetters are the type codes of the formats (aux value types, array
// subtypes, CIGAR operations), plus neighbours that are not codes.
var typeLetters = []byte("AcCsSiIfZHBdMIDNSHP=Xb")

func isTypeLetter(c byte) bool {
	for _, t := range typeLetters {
		if c == t {
			return true
		}
	}
	return false
}

var extremeNumbers = []string{"9223372036854775807", "9223372036854775806", "4611686018427387904", "4611686018427387903", "2147483647", "2147483648", "4294967295", "4294967296", "536870912", "268435456", "-1", "0", "18446744073709551615", "-9223372036854775808"}

var smallVals = []uint32{0, 1, 2, 3, 4, 7, 8, 9, 15, 16, 17, 21, 62, 63, 64, 127, 128, 255, 256, 257, 4095, 4096, 65535, 65536}

// MutateBinary returns a structure-aware mutation of b: length/count field
// edits at 4-byte aligned and unaligned offsets, truncations, bit flips, byte
// sets, insertions, deletions, duplications and splices from other.
func MutateBinary(rng *rand.Rand, b, other []byte) []byte {
	out := append([]byte(nil), b...)
	n := 1 + rng.Intn(3)
	for k := 0; k < n; k++ {
		if len(out) == 0 {
			out = append(out, byte(rng.Intn(256)))
			continue
		}
		switch rng.Intn(14) {
		case 12, 13: // type-letter swap: a type code becomes another valid (or nearly valid) one
			var at []int
			for i, c := range out {
				if isTypeLetter(c) {
					at = append(at, i)
				}
			}
			if len(at) > 0 {
				out[at[rng.Intn(len(at))]] = typeLetters[rng.Intn(len(typeLetters))]
			}
		case 0, 1: // 32-bit field edit
			if len(out) >= 4 {
				o := rng.Intn(len(out) - 3)
				if rng.Intn(3) != 0 {
					o &^= 3
				}
				var v uint32
				switch rng.Intn(40) {
				case 0:
					v = 0x7fffffff // asks for a lot of memory; kept rare
				case 1, 2, 3, 4, 5:
					v = uint32(len(out) - o)
				case 6, 7, 8, 9:
					v = uint32(len(out)-o) + 1
				case 10, 11, 12, 13, 14, 15, 16, 17, 18, 19:
					v = binary.LittleEndian.Uint32(out[o:]) + uint32(rng.Intn(3)) - 1
				default:
					// mostly small and boundary values; the giant ones (wrap
					// around in size arithmetic) usually just hit the memory
					// limit, which costs a child process and judges nothing
					if rng.Intn(4) != 0 {
						v = smallVals[rng.Intn(len(smallVals))]
					} else {
						v = lenVals[rng.Intn(len(lenVals))]
					}
				}
				binary.LittleEndian.PutUint32(out[o:], v)
			}
		case 2: // 16-bit field edit
			if len(out) >= 2 {
				o := rng.Intn(len(out) - 1)
				binary.LittleEndian.PutUint16(out[o:], uint16([]int{0, 1, 0xffff, 0x7fff, 0x8000}[rng.Intn(5)]))
			}
		case 3: // truncate
			out = out[:rng.Intn(len(out))]
		case 4: // bit flip
			o := rng.Intn(len(out))
			out[o] ^= 1 << uint(rng.Intn(8))
		case 5: // byte set
			out[rng.Intn(len(out))] = []byte{0, 1, 0x7f, 0x80, 0xff, ' ', '\t', '\n'}[rng.Intn(8)]
		case 6: // delete a run
			o := rng.Intn(len(out))
			l := 1 + rng.Intn(8)
			if o+l > len(out) {
				l = len(out) - o
			}
			out = append(out[:o], out[o+l:]...)
		case 7: // insert a run
			o := rng.Intn(len(out) + 1)
			ins := make([]byte, 1+rng.Intn(8))
			rng.Read(ins)
			out = append(out[:o], append(ins, out[o:]...)...)
		case 8: // duplicate a run
			o := rng.Intn(len(out))
			l := 1 + rng.Intn(16)
			if o+l > len(out) {
				l = len(out) - o
			}
			dup := append([]byte(nil), out[o:o+l]...)
			out = append(out[:o+l], append(dup, out[o+l:]...)...)
		case 9: // splice a field from another valid input
			if len(other) > 0 {
				o := rng.Intn(len(out))
				s := rng.Intn(len(other))
				l := 1 + rng.Intn(24)
				if s+l > len(other) {
					l = len(other) - s
				}
				if o+l > len(out) {
					l = len(out) - o
				}
				copy(out[o:o+l], other[s:s+l])
			}
		case 10: // truncate at a 4-byte edge
			if len(out) > 4 {
				out = out[:rng.Intn(len(out)/4)*4]
			}
		default: // zero a run
			o := rng.Intn(len(out))
			l := 1 + rng.Intn(8)
			for i := o; i < o+l && i < len(out); i++ {
				out[i] = 0
			}
		}
	}
	return out
}

// MutateText returns a mutation of a text input: separators dropped or
// duplicated, fields emptied or shortened to 1-2 bytes, over-long numbers,
// plus the binary mutations.
func MutateText(rng *rand.Rand, b, other []byte) []byte {
	out := append([]byte(nil), b...)
	if len(out) == 0 || rng.Intn(4) == 0 {
		return MutateBinary(rng, out, other)
	}
	seps := []byte{'\t', ':', '\n', ',', '@', '\r'}
	n := 1 + rng.Intn(3)
	for k := 0; k < n && len(out) > 0; k++ {
		sep := seps[rng.Intn(len(seps))]
		var idx []int
		for i, c := range out {
			if c == sep {
				idx = append(idx, i)
			}
		}
		switch rng.Intn(7) {
		case 0: // drop a separator
			if len(idx) > 0 {
				i := idx[rng.Intn(len(idx))]
				out = append(out[:i], out[i+1:]...)
			}
		case 1: // duplicate a separator
			if len(idx) > 0 {
				i := idx[rng.Intn(len(idx))]
				out = append(out[:i+1], append([]byte{sep}, out[i+1:]...)...)
			}
		case 2: // empty / shorten the field after a separator
			if len(idx) > 0 {
				i := idx[rng.Intn(len(idx))]
				j := i + 1
				for j < len(out) && out[j] != '\t' && out[j] != '\n' {
					j++
				}
				keep := rng.Intn(3)
				if i+1+keep > j {
					keep = j - i - 1
				}
				out = append(out[:i+1+keep], out[j:]...)
			}
		case 3: // over-long number
			var digs []int
			for i, c := range out {
				if c >= '0' && c <= '9' {
					digs = append(digs, i)
				}
			}
			if len(digs) > 0 && rng.Intn(2) == 0 {
				// replace a whole number by a value at the edge of an integer type
				i := digs[rng.Intn(len(digs))]
				a, b := i, i+1
				for a > 0 && out[a-1] >= '0' && out[a-1] <= '9' {
					a--
				}
				for b < len(out) && out[b] >= '0' && out[b] <= '9' {
					b++
				}
				num := []byte(extremeNumbers[rng.Intn(len(extremeNumbers))])
				out = append(out[:a], append(num, out[b:]...)...)
			} else if len(digs) > 0 {
				i := digs[rng.Intn(len(digs))]
				num := []byte("99999999999999999999999")[:1+rng.Intn(22)]
				out = append(out[:i], append(num, out[i:]...)...)
			}
		case 4: // replace a byte by a separator or odd character
			out[rng.Intn(len(out))] = []byte{'\t', ':', '\n', ',', 0, 0xff, '-', '*', '='}[rng.Intn(9)]
		case 5: // truncate
			out = out[:rng.Intn(len(out))]
		default: // insert an empty line or a short line
			if len(idx) > 0 {
				i := idx[rng.Intn(len(idx))]
				ins := [][]byte{{'\n'}, {'\n', '@'}, {'\n', '@', 'S'}, {'\n', '\n'}, {'\t'}}[rng.Intn(5)]
				out = append(out[:i], append(append([]byte(nil), ins...), out[i:]...)...)
			}
		}
	}
	return out
}
