package gen

import (
	"fmt"
	"math/rand"
	"sort"
)

// IRec is one record to be indexed: a half open reference interval.
type IRec struct {
	Ref    int // -1: unplaced
	Start  int
	End    int // > Start
	Mapped bool
	Name   string
	Size   int // bytes the record occupies in the data file
}

// ISet is a coordinate sorted record set for one binning geometry.
type ISet struct {
	NRefs    int
	Recs     []IRec
	MinShift int
	Depth    int
}

func (s ISet) Max() int { return 1 << uint(s.MinShift+3*s.Depth) }

// RandISet generates a sorted record set with positions and lengths biased
// to tile edges and to every bin-level edge of the geometry.
// SpanCap is the largest record or query width used for a scheme: unlimited
// (0) up to depth 6, 2^15 smallest bins for deeper schemes.
func SpanCap(minShift, depth int) int {
	if depth <= 6 {
		return 0
	}
	return 1 << uint(minShift+15)
}

func RandISet(rng *rand.Rand, minShift, depth int) ISet {
	s := ISet{NRefs: 1 + rng.Intn(4), MinShift: minShift, Depth: depth}
	max := s.Max() - 2
	tile := 1 << uint(minShift)
	nrec := 1 + rng.Intn(40)
	style := rng.Intn(5) // 0 dense one region, 1 sparse, 2 edges, 3 mixed, 4 many in one bin
	pos := func() int {
		switch style {
		case 0:
			return rng.Intn(8 * tile)
		case 1:
			return rng.Intn(max)
		case 2:
			lv := rng.Intn(depth + 1)
			w := tile << uint(3*lv)
			k := rng.Intn(max/w + 1)
			return k*w + rng.Intn(3) - 1
		case 4:
			return 5*tile + rng.Intn(tile)
		}
		switch rng.Intn(3) {
		case 0:
			return rng.Intn(max)
		case 1:
			k := rng.Intn(max/tile + 1)
			return k*tile + rng.Intn(3) - 1
		}
		return rng.Intn(20 * tile)
	}
	length := func(start int) int {
		switch rng.Intn(8) {
		case 0:
			return 1
		case 1:
			// end exactly on / next to the next tile edge
			e := (start/tile+1)*tile + rng.Intn(3) - 1
			if e <= start {
				e = start + 1
			}
			return e - start
		case 2:
			return 1 + rng.Intn(3*tile)
		case 3:
			lv := rng.Intn(depth + 1)
			return 1 + rng.Intn(tile<<uint(3*lv))
		case 4:
			return tile
		}
		return 1 + rng.Intn(300)
	}
	for i := 0; i < nrec; i++ {
		r := IRec{Ref: rng.Intn(s.NRefs), Mapped: rng.Intn(6) != 0, Size: 20 + rng.Intn(400)}
		if rng.Intn(6) == 0 {
			r.Size = 2000 + rng.Intn(70000)
		}
		st := pos()
		if st < 0 {
			st = 0
		}
		if st > max-1 {
			st = max - 1
		}
		l := length(st)
		if !r.Mapped {
			l = 1 // placed unmapped reads are treated as length one
		}
		if c := SpanCap(minShift, depth); c > 0 && l > c {
			l = c
		}
		// the exclusive end may reach Max()-1: the last base a record can
		// cover is the last position the scheme accepts as a start
		if st+l > max+1 {
			l = max + 1 - st
		}
		if l < 1 {
			l = 1
		}
		r.Start, r.End = st, st+l
		s.Recs = append(s.Recs, r)
	}
	// shallow schemes: every bin of every level occupied on one reference
	// (the largest number of bins a reference can have)
	if depth <= 2 && rng.Intn(3) == 0 {
		ref := rng.Intn(s.NRefs)
		for lv := 0; lv <= depth; lv++ {
			w := (max + 2) >> uint(3*lv)
			for k := 0; k < 1<<uint(3*lv); k++ {
				st, en := k*w, k*w+1
				if lv < depth {
					st = k*w + w/8 - 1 // straddles the first boundary between children
					en = st + 2
				}
				s.Recs = append(s.Recs, IRec{Ref: ref, Start: st, End: en, Mapped: true, Size: 40})
			}
		}
	}
	// a record inside a tile followed by one straddling the same tile's end
	if rng.Intn(2) == 0 && max > 4*tile {
		t := rng.Intn(max/tile - 2)
		ref := rng.Intn(s.NRefs)
		s.Recs = append(s.Recs,
			IRec{Ref: ref, Start: t*tile + 3, End: t*tile + 10, Mapped: true, Size: 50},
			IRec{Ref: ref, Start: t*tile + tile - 5, End: t*tile + tile + 7, Mapped: true, Size: 50})
	}
	// a record covering the last indexable base
	if rng.Intn(4) == 0 {
		l := 1 + rng.Intn(3)
		if rng.Intn(3) == 0 {
			l = 1 + rng.Intn(2*tile)
		}
		if c := SpanCap(minShift, depth); c > 0 && l > c {
			l = c
		}
		if l > max+1 {
			l = max + 1
		}
		s.Recs = append(s.Recs, IRec{Ref: rng.Intn(s.NRefs), Start: max + 1 - l, End: max + 1, Mapped: true, Size: 60})
	}
	sort.SliceStable(s.Recs, func(a, b int) bool {
		x, y := s.Recs[a], s.Recs[b]
		if x.Ref != y.Ref {
			return x.Ref < y.Ref
		}
		return x.Start < y.Start
	})
	if rng.Intn(30) == 0 {
		// a file of unplaced records only: an index without references
		s.Recs = nil
		s.Recs = append(s.Recs, IRec{Ref: -1, Start: -1, End: 0, Size: 50})
	}
	for k := rng.Intn(4); k > 0; k-- {
		s.Recs = append(s.Recs, IRec{Ref: -1, Start: -1, End: 0, Size: 30 + rng.Intn(100)})
	}
	for i := range s.Recs {
		s.Recs[i].Name = fmt.Sprintf("r%03d", i)
	}
	return s
}

// Layout assigns each record a chunk of a synthetic BGZF file: records are
// laid end to end in the uncompressed stream, which is cut into blocks of
// seeded sizes. It returns a File whose Blocks describe the layout (no bytes)
// and the logical [begin,end) of each record.
func Layout(rng *rand.Rand, recs []IRec, fromZero bool) (*File, [][2]int64) {
	f := &File{}
	var spans [][2]int64
	total := int64(1000 + rng.Intn(5000)) // header bytes before the first record
	if fromZero {
		total = 0 // a headerless data file: the first record is at virtual offset 0
	}
	for _, r := range recs {
		spans = append(spans, [2]int64{total, total + int64(r.Size)})
		total += int64(r.Size)
	}
	// cut into blocks; sometimes exactly at record ends
	var pos, base int64
	ri := 0
	for pos < total {
		l := int64(200 + rng.Intn(3000))
		if rng.Intn(4) == 0 {
			l = 65280
		}
		if rng.Intn(3) == 0 {
			// end the block exactly at the end of a nearby record
			for ri < len(spans) && spans[ri][1] <= pos {
				ri++
			}
			if ri < len(spans) && spans[ri][1]-pos <= 65280 {
				l = spans[ri][1] - pos
			}
		}
		if pos+l > total {
			l = total - pos
		}
		csize := int64(30 + rng.Intn(int(l)/2+40))
		f.Blocks = append(f.Blocks, FBlock{Base: base, Size: int(csize), Len: int(l), Start: pos})
		base += csize
		pos += l
	}
	f.Flat = make([]byte, 0)
	return f, spans
}

// LogicalLen is the uncompressed length described by the blocks.
func (f *File) LogicalLen() int64 {
	if len(f.Blocks) == 0 {
		return 0
	}
	b := f.Blocks[len(f.Blocks)-1]
	return b.Start + int64(b.Len)
}
