// Package gen holds the seeded generators. A generator is a pure function
// of its *rand.Rand so that a case can be re-derived from its seed.
package gen

import (
	"fmt"
	"math/rand"
	"strings"

	"verif/oracle"
)

const BlockSize = oracle.BlockSize

// Fill fills b with content of the given kind: 0 zeros, 1 text, 2 random
// (incompressible), 3 0xFF.
func Fill(rng *rand.Rand, b []byte, kind int) {
	switch kind {
	case 0:
		for i := range b {
			b[i] = 0
		}
	case 1:
		const words = "ACGTNacgtn \tchr1\n0123456789=*@SQHD"
		for i := range b {
			b[i] = words[rng.Intn(len(words))]
		}
	case 2:
		rng.Read(b)
	default:
		for i := range b {
			b[i] = 0xff
		}
	}
}

// WOp is one writer API call of a script.
type WOp struct {
	Op      byte // 'W' Write, 'F' Flush, 'A' Wait
	Len     int
	Content int
}

// Script is a sequence of writer calls.
type Script struct {
	Ops []WOp
}

var edgeLens = []int{0, 1, 2, 255, 4096, BlockSize - 1, BlockSize, BlockSize + 1, 2*BlockSize - 1, 2 * BlockSize, 2*BlockSize + 1, 3*BlockSize + 7}

// RandScript builds a script whose running fill level of the active block
// hits 0, 1 and BlockSize-1 before writes, with payload lengths around the
// block size. maxTotal bounds the total payload.
func RandScript(rng *rand.Rand, maxOps, maxTotal int) Script {
	var s Script
	n := 1 + rng.Intn(maxOps)
	fill := 0 // model of the active block's fill level
	total := 0
	for i := 0; i < n; i++ {
		x := rng.Intn(100)
		switch {
		case x < 12:
			s.Ops = append(s.Ops, WOp{Op: 'F'})
			fill = 0
			continue
		case x < 20:
			s.Ops = append(s.Ops, WOp{Op: 'A'})
			continue
		}
		var l int
		switch rng.Intn(6) {
		case 0:
			l = edgeLens[rng.Intn(len(edgeLens))]
		case 1:
			l = rng.Intn(300)
		case 2:
			// exactly fill, or one short of / one past filling, the active block
			l = BlockSize - fill + rng.Intn(3) - 1
		case 3:
			l = rng.Intn(BlockSize)
		case 4:
			// leave the fill level at BlockSize-1 or 1
			if fill < BlockSize-1 {
				l = BlockSize - 1 - fill
			} else {
				l = 1
			}
		default:
			l = rng.Intn(2*BlockSize + 2)
		}
		if l < 0 {
			l = 0
		}
		if total+l > maxTotal {
			l = rng.Intn(64)
		}
		total += l
		s.Ops = append(s.Ops, WOp{Op: 'W', Len: l, Content: rng.Intn(4)})
		// model of Writer.Write's splitting
		rem := l
		for rem > 0 {
			if fill == 0 || fill+rem <= BlockSize {
				k := rem
				if k > BlockSize-fill {
					k = BlockSize - fill
				}
				fill += k
				rem -= k
				if fill == BlockSize {
					fill = 0
				}
			} else {
				fill = 0
			}
		}
	}
	return s
}

// Payloads materialises the Write payloads of a script.
func (s Script) Payloads(rng *rand.Rand) [][]byte {
	out := make([][]byte, len(s.Ops))
	for i, op := range s.Ops {
		if op.Op == 'W' {
			b := make([]byte, op.Len)
			Fill(rng, b, op.Content)
			out[i] = b
		}
	}
	return out
}

func (s Script) Total() int {
	t := 0
	for _, op := range s.Ops {
		t += op.Len
	}
	return t
}

func (s Script) String() string {
	out := ""
	for i, op := range s.Ops {
		if i >= 24 {
			out += fmt.Sprintf(" …(%d ops)", len(s.Ops))
			break
		}
		if op.Op == 'W' {
			out += fmt.Sprintf(" W%d/%d", op.Len, op.Content)
		} else {
			out += " " + string(op.Op)
		}
	}
	return out
}

// FBlock is one member of a generated BGZF file.
type FBlock struct {
	Base  int64 // file offset of the member
	Size  int   // member length
	Len   int   // payload length
	Start int64 // logical offset of the payload in the flat data
}

// File is a BGZF file built by the independent encoder.
type File struct {
	Bytes  []byte
	Blocks []FBlock // includes empty members and the EOF marker, in file order
	Flat   []byte
	HasEOF bool
	// MaxMember: one member is exactly MaxBlockSize bytes long.
	MaxMember bool
}

// FileOpts steer RandFile.
type FileOpts struct {
	MaxBlocks  int
	SmallOnly  bool // keep blocks small (fast cases)
	NoEmpty    bool
	ExtraField bool // allow other extra subfields around BC
	MaxMember  bool // allow a member of exactly MaxBlockSize bytes
}

// RandFile builds a BGZF file with an arbitrary layout: data blocks of sizes
// 1..BlockSize (mostly small), empty members singly and in runs (also first
// and last), with or without the EOF marker.
func RandFile(rng *rand.Rand, o FileOpts) *File {
	f := &File{}
	n := 1 + rng.Intn(o.MaxBlocks)
	pEmpty := 0
	if !o.NoEmpty {
		pEmpty = []int{0, 0, 10, 30}[rng.Intn(4)]
	}
	// One file in five (with MaxMember) has a member of
	// exactly MaxBlockSize bytes, the largest the format allows (BSIZE 0xffff):
	// the first data member is padded to it with an extra subfield.
	padMax := o.MaxMember && rng.Intn(5) == 0
	var add func(data []byte, opts oracle.MemberOpts)
	add = func(data []byte, opts oracle.MemberOpts) {
		m, err := oracle.EncodeMember(data, opts)
		if err == nil && padMax && len(data) > 0 && len(opts.ExtraAfter) == 0 {
			// (compress/gzip refuses header strings over 511 bytes, so the
			// padding is an extra subfield after BC)
			if pad := oracle.MaxBlockSize - len(m) - 4; pad >= 0 {
				opts.ExtraAfter = oracle.Subfield('Z', 'W', []byte(strings.Repeat("x", pad)))
				if m2, err2 := oracle.EncodeMember(data, opts); err2 == nil && len(m2) == oracle.MaxBlockSize {
					m = m2
					padMax = false
					f.MaxMember = true
				}
			}
		}
		if err != nil {
			// incompressible data that does not fit: halve it
			add(data[:len(data)/2], opts)
			add(data[len(data)/2:], opts)
			return
		}
		f.Blocks = append(f.Blocks, FBlock{Base: int64(len(f.Bytes)), Size: len(m), Len: len(data), Start: int64(len(f.Flat))})
		f.Bytes = append(f.Bytes, m...)
		f.Flat = append(f.Flat, data...)
	}
	mkOpts := func() oracle.MemberOpts {
		mo := oracle.MemberOpts{Level: rng.Intn(11) - 1, OS: 0xff}
		if o.ExtraField && rng.Intn(4) == 0 {
			p := make([]byte, rng.Intn(6))
			rng.Read(p)
			if rng.Intn(3) == 0 {
				// a payload that contains the bytes of a BC subfield header:
				// the extra field is a sequence of subfields, and only a
				// subfield named BC of length 2 carries the block size
				p = append(p, 'B', 'C', 2, 0, byte(rng.Intn(256)), byte(rng.Intn(128)))
			}
			if rng.Intn(2) == 0 {
				mo.ExtraBefore = oracle.Subfield('X', 'Y', p)
			} else {
				mo.ExtraAfter = oracle.Subfield('Z', 'W', p)
			}
		}
		if rng.Intn(8) == 0 {
			mo.MTime = rng.Uint32()
			mo.OS = byte(rng.Intn(256))
		}
		return mo
	}
	for i := 0; i < n; i++ {
		if rng.Intn(100) < pEmpty {
			run := 1 + rng.Intn(3)
			for k := 0; k < run; k++ {
				add(nil, mkOpts())
			}
			continue
		}
		var l int
		switch x := rng.Intn(10); {
		case x < 2:
			l = 1 + rng.Intn(2)
		case x < 6:
			l = 1 + rng.Intn(200)
		case x < 8:
			l = 1 + rng.Intn(5000)
		default:
			if o.SmallOnly {
				l = 1 + rng.Intn(3000)
			} else {
				l = []int{BlockSize - 1, BlockSize, BlockSize - rng.Intn(100), 1 + rng.Intn(BlockSize)}[rng.Intn(4)]
			}
		}
		data := make([]byte, l)
		kind := rng.Intn(3)
		if l > 60000 && kind == 2 {
			kind = 1 // random data of that size does not fit a member at every level
		}
		Fill(rng, data, kind)
		// make positions recognisable: stamp the logical offset every 64 bytes
		for p := 0; p+8 <= len(data); p += 64 {
			v := uint64(len(f.Flat) + p)
			for k := 0; k < 8; k++ {
				data[p+k] = byte(v >> (8 * uint(k)))
			}
		}
		add(data, mkOpts())
	}
	if !o.NoEmpty && rng.Intn(6) == 0 {
		add(nil, mkOpts())
	}
	if rng.Intn(4) != 0 {
		f.Blocks = append(f.Blocks, FBlock{Base: int64(len(f.Bytes)), Size: len(oracle.EOFMarker), Len: 0, Start: int64(len(f.Flat))})
		f.Bytes = append(f.Bytes, oracle.EOFMarker...)
		f.HasEOF = true
	}
	return f
}

// BlockAt returns the index of the block with the given base, or -1.
func (f *File) BlockAt(base int64) int {
	for i, b := range f.Blocks {
		if b.Base == base {
			return i
		}
	}
	return -1
}

// FileFromData builds a BGZF file holding data cut into members at the given
// (sorted, distinct) cut points; with emptyP percent probability an empty
// member is inserted at a cut. The EOF marker is appended when eof is set.
func FileFromData(rng *rand.Rand, data []byte, cuts []int, emptyP int, eof bool) *File {
	f := &File{}
	add := func(seg []byte) {
		m, err := oracle.EncodeMember(seg, oracle.MemberOpts{Level: rng.Intn(11) - 1, OS: 0xff})
		if err != nil {
			panic(err)
		}
		f.Blocks = append(f.Blocks, FBlock{Base: int64(len(f.Bytes)), Size: len(m), Len: len(seg), Start: int64(len(f.Flat))})
		f.Bytes = append(f.Bytes, m...)
		f.Flat = append(f.Flat, seg...)
	}
	last := 0
	for _, c := range append(append([]int(nil), cuts...), len(data)) {
		if c <= last || c > len(data) {
			continue
		}
		for c-last > 60000 { // keep members within the format's limit
			add(data[last : last+60000])
			last += 60000
		}
		add(data[last:c])
		last = c
		if emptyP > 0 && rng.Intn(100) < emptyP {
			add(nil)
		}
	}
	if eof {
		f.Blocks = append(f.Blocks, FBlock{Base: int64(len(f.Bytes)), Size: len(oracle.EOFMarker), Len: 0, Start: int64(len(f.Flat))})
		f.Bytes = append(f.Bytes, oracle.EOFMarker...)
		f.HasEOF = true
	}
	return f
}

// VOffset returns the virtual offset of logical position p in the form a
// reader reports for the start of a read: the block holding byte p.
func (f *File) VOffset(p int64) (base int64, off int) {
	for _, b := range f.Blocks {
		if b.Len > 0 && p >= b.Start && p < b.Start+int64(b.Len) {
			return b.Base, int(p - b.Start)
		}
	}
	// end of data: the end of the last data block
	for i := len(f.Blocks) - 1; i >= 0; i-- {
		if f.Blocks[i].Len > 0 {
			return f.Blocks[i].Base, f.Blocks[i].Len
		}
	}
	return 0, 0
}

// VOffsetEnd returns the forms of the virtual offset of an interval end e:
// (block holding byte e-1, offset) and, when e is the start of a data block,
// (that block, 0).
func (f *File) VOffsetEnd(e int64) [][2]int64 {
	var out [][2]int64
	for _, b := range f.Blocks {
		if b.Len > 0 && e > b.Start && e <= b.Start+int64(b.Len) {
			out = append(out, [2]int64{b.Base, e - b.Start})
		}
	}
	for _, b := range f.Blocks {
		if b.Len > 0 && e == b.Start && e > 0 {
			out = append(out, [2]int64{b.Base, 0})
		}
	}
	return out
}
