package oracle

import (
	"bytes"
	"encoding/binary"
	"encoding/hex"
	"fmt"
	"math"
	"strconv"
	"strings"
)

// Independent BAM record / header encoder (SAMv1 section 4.2) and SAM text
// formatter (sections 1.4, 1.5). No code shared with biogo/hts.

// AuxF is one optional field.
type AuxF struct {
	Tag  [2]byte
	Type byte // A c C s S i I f Z H B
	Int  int64
	F    float32
	Data []byte // Z: the string; H: the decoded bytes
	Sub  byte   // B: element type c C s S i I f
	Ints []int64
	Flts []float32
}

// Rec is a format-level description of an alignment record.
type Rec struct {
	Name      string
	RefID     int32
	Pos       int32
	MapQ      byte
	Flags     uint16
	Cigar     []CigOp
	MateRefID int32
	MatePos   int32
	TLen      int32
	Seq       string // letters of =ACMGRSVTWYHKDBN
	Qual      []byte // nil: absent; else len(Seq) phred values
	Aux       []AuxF
}

const SeqCodes = "=ACMGRSVTWYHKDBN"

func le16(b *bytes.Buffer, v uint16) {
	var t [2]byte
	binary.LittleEndian.PutUint16(t[:], v)
	b.Write(t[:])
}
func le32(b *bytes.Buffer, v uint32) {
	var t [4]byte
	binary.LittleEndian.PutUint32(t[:], v)
	b.Write(t[:])
}

// EncodeAux encodes one optional field. hexText selects the specification's
// encoding of H (hexadecimal digits) or, when false, the raw bytes.
func EncodeAux(a AuxF, hexText bool) []byte {
	var b bytes.Buffer
	b.Write(a.Tag[:])
	b.WriteByte(a.Type)
	intv := func(t byte, v int64) {
		switch t {
		case 'c', 'C':
			b.WriteByte(byte(v))
		case 's', 'S':
			le16(&b, uint16(v))
		case 'i', 'I':
			le32(&b, uint32(v))
		}
	}
	switch a.Type {
	case 'A':
		b.WriteByte(byte(a.Int))
	case 'c', 'C', 's', 'S', 'i', 'I':
		intv(a.Type, a.Int)
	case 'f':
		le32(&b, math.Float32bits(a.F))
	case 'Z':
		b.Write(a.Data)
		b.WriteByte(0)
	case 'H':
		if hexText {
			b.WriteString(strings.ToUpper(hex.EncodeToString(a.Data)))
		} else {
			b.Write(a.Data)
		}
		b.WriteByte(0)
	case 'B':
		b.WriteByte(a.Sub)
		if a.Sub == 'f' {
			le32(&b, uint32(len(a.Flts)))
			for _, f := range a.Flts {
				le32(&b, math.Float32bits(f))
			}
		} else {
			le32(&b, uint32(len(a.Ints)))
			for _, v := range a.Ints {
				intv(a.Sub, v)
			}
		}
	}
	return b.Bytes()
}

// EncodeBAMRecord returns block_size followed by the record.
func EncodeBAMRecord(r Rec, hexText bool) []byte {
	var v bytes.Buffer
	le32(&v, uint32(r.RefID))
	le32(&v, uint32(r.Pos))
	v.WriteByte(byte(len(r.Name) + 1))
	v.WriteByte(r.MapQ)
	_, be := BinSpan(int(r.Pos), r.Flags&4 != 0, r.Cigar)
	le16(&v, uint16(SpecReg2bin(int(r.Pos), be)))
	le16(&v, uint16(len(r.Cigar)))
	le16(&v, r.Flags)
	le32(&v, uint32(len(r.Seq)))
	le32(&v, uint32(r.MateRefID))
	le32(&v, uint32(r.MatePos))
	le32(&v, uint32(r.TLen))
	v.WriteString(r.Name)
	v.WriteByte(0)
	for _, c := range r.Cigar {
		le32(&v, uint32(c.Len)<<4|uint32(c.Op))
	}
	for i := 0; i < len(r.Seq); i += 2 {
		hi := byte(strings.IndexByte(SeqCodes, r.Seq[i]))
		lo := byte(0)
		if i+1 < len(r.Seq) {
			lo = byte(strings.IndexByte(SeqCodes, r.Seq[i+1]))
		}
		v.WriteByte(hi<<4 | lo)
	}
	if r.Qual == nil {
		for range r.Seq {
			v.WriteByte(0xff)
		}
	} else {
		v.Write(r.Qual)
	}
	for _, a := range r.Aux {
		v.Write(EncodeAux(a, hexText))
	}
	var out bytes.Buffer
	le32(&out, uint32(v.Len()))
	out.Write(v.Bytes())
	return out.Bytes()
}

// BinOffset is the offset of the bin field inside an encoded record (after block_size).
const BinOffset = 4 + 4 + 4 + 2

// RefSpec is a reference sequence dictionary entry.
type RefSpec struct {
	Name string
	Len  int32
}

// EncodeBAMHeader encodes magic, header text and the reference list.
func EncodeBAMHeader(text []byte, refs []RefSpec) []byte {
	var b bytes.Buffer
	b.WriteString("BAM\x01")
	le32(&b, uint32(len(text)))
	b.Write(text)
	le32(&b, uint32(len(refs)))
	for _, r := range refs {
		le32(&b, uint32(len(r.Name)+1))
		b.WriteString(r.Name)
		b.WriteByte(0)
		le32(&b, uint32(r.Len))
	}
	return b.Bytes()
}

var cigLetters = "MIDNSHP=XB"

// FormatSAM formats a record as a SAM line (without newline). refName maps a
// reference id to its name. flagFmt: 0 decimal, 1 hexadecimal.
func FormatSAM(r Rec, refName func(int32) string, flagFmt int) string {
	var f []string
	f = append(f, r.Name)
	if flagFmt == 1 {
		f = append(f, "0x"+strconv.FormatUint(uint64(r.Flags), 16))
	} else {
		f = append(f, strconv.Itoa(int(r.Flags)))
	}
	f = append(f, refName(r.RefID), strconv.Itoa(int(r.Pos)+1), strconv.Itoa(int(r.MapQ)))
	if len(r.Cigar) == 0 {
		f = append(f, "*")
	} else {
		var c strings.Builder
		for _, o := range r.Cigar {
			c.WriteString(strconv.Itoa(o.Len))
			c.WriteByte(cigLetters[o.Op])
		}
		f = append(f, c.String())
	}
	switch {
	case r.MateRefID >= 0 && r.MateRefID == r.RefID:
		f = append(f, "=")
	default:
		f = append(f, refName(r.MateRefID))
	}
	f = append(f, strconv.Itoa(int(r.MatePos)+1), strconv.Itoa(int(r.TLen)))
	if len(r.Seq) == 0 {
		f = append(f, "*")
	} else {
		f = append(f, r.Seq)
	}
	if r.Qual == nil {
		f = append(f, "*")
	} else {
		allFF := len(r.Qual) > 0
		q := make([]byte, len(r.Qual))
		for i, v := range r.Qual {
			q[i] = v + 33
			if v != 0xff {
				allFF = false
			}
		}
		if allFF || len(q) == 0 {
			f = append(f, "*")
		} else {
			f = append(f, string(q))
		}
	}
	for _, a := range r.Aux {
		f = append(f, FormatAux(a))
	}
	return strings.Join(f, "\t")
}

// FormatAux formats one optional field as SAM text.
func FormatAux(a AuxF) string {
	tag := string(a.Tag[:])
	switch a.Type {
	case 'A':
		return tag + ":A:" + string(rune(byte(a.Int)))
	case 'c', 'C', 's', 'S', 'i', 'I':
		return tag + ":i:" + strconv.FormatInt(a.Int, 10)
	case 'f':
		return tag + ":f:" + strconv.FormatFloat(float64(a.F), 'g', -1, 32)
	case 'Z':
		return tag + ":Z:" + string(a.Data)
	case 'H':
		return tag + ":H:" + hex.EncodeToString(a.Data)
	case 'B':
		var s strings.Builder
		s.WriteString(tag + ":B:" + string(rune(a.Sub)))
		if a.Sub == 'f' {
			for _, v := range a.Flts {
				s.WriteString("," + strconv.FormatFloat(float64(v), 'g', -1, 32))
			}
		} else {
			for _, v := range a.Ints {
				s.WriteString("," + strconv.FormatInt(v, 10))
			}
		}
		return s.String()
	}
	return fmt.Sprintf("%s:?:", tag)
}
