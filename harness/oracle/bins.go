package oracle

// Binning index arithmetic, two independent formulations.
//
// (a) SpecReg2bin/SpecReg2bins and SpecCSIReg2bin/SpecCSIReg2bins are the C
//     functions printed in SAMv1 section 5.3 and in the CSI specification,
//     transliterated statement by statement.
// (b) DefBin/DefBins use only the definition of the scheme, with no shifts:
//     level l (0 = root) has 8^l bins numbered (8^l-1)/7 + k, bin k of level l
//     covers [k*w_l, (k+1)*w_l) with w_l = 2^(minShift+3*(depth-l)); the bin of
//     an interval is the smallest bin containing it; the bin list of an
//     interval is every bin that intersects it.

func SpecReg2bin(beg, end int) int {
	end--
	if beg>>14 == end>>14 {
		return ((1<<15)-1)/7 + (beg >> 14)
	}
	if beg>>17 == end>>17 {
		return ((1<<12)-1)/7 + (beg >> 17)
	}
	if beg>>20 == end>>20 {
		return ((1<<9)-1)/7 + (beg >> 20)
	}
	if beg>>23 == end>>23 {
		return ((1<<6)-1)/7 + (beg >> 23)
	}
	if beg>>26 == end>>26 {
		return ((1<<3)-1)/7 + (beg >> 26)
	}
	return 0
}

func SpecReg2bins(beg, end int) []int {
	var list []int
	end--
	list = append(list, 0)
	for k := 1 + (beg >> 26); k <= 1+(end>>26); k++ {
		list = append(list, k)
	}
	for k := 9 + (beg >> 23); k <= 9+(end>>23); k++ {
		list = append(list, k)
	}
	for k := 73 + (beg >> 20); k <= 73+(end>>20); k++ {
		list = append(list, k)
	}
	for k := 585 + (beg >> 17); k <= 585+(end>>17); k++ {
		list = append(list, k)
	}
	for k := 4681 + (beg >> 14); k <= 4681+(end>>14); k++ {
		list = append(list, k)
	}
	return list
}

func SpecCSIReg2bin(beg, end int64, minShift, depth int) int64 {
	l, s, t := depth, uint(minShift), int64(((1<<uint(depth*3))-1)/7)
	end--
	for l > 0 {
		if beg>>s == end>>s {
			return t + (beg >> s)
		}
		// C: --l, s += 3, t -= 1<<l*3   (l already decremented)
		l--
		s += 3
		t -= 1 << uint(l*3)
	}
	return 0
}

func SpecCSIReg2bins(beg, end int64, minShift, depth int) []int64 {
	var bins []int64
	s := uint(minShift + depth*3)
	end--
	t := int64(0)
	for l := 0; l <= depth; l++ {
		b := t + (beg >> s)
		e := t + (end >> s)
		for i := b; i <= e; i++ {
			bins = append(bins, i)
		}
		s -= 3
		t += 1 << uint(l*3)
	}
	return bins
}

func pow(b int64, e int) int64 {
	r := int64(1)
	for i := 0; i < e; i++ {
		r *= b
	}
	return r
}

// DefBin is the smallest bin containing [beg,end), end > beg.
func DefBin(beg, end int64, minShift, depth int) int64 {
	for l := depth; l >= 0; l-- {
		w := pow(2, minShift+3*(depth-l))
		k := beg / w
		if k*w <= beg && end <= (k+1)*w && k < pow(8, l) {
			return (pow(8, l)-1)/7 + k
		}
	}
	return 0
}

// DefBinsContains reports whether bin is one of the bins intersecting [beg,end).
func DefBinsContains(bin, beg, end int64, minShift, depth int) bool {
	for l := 0; l <= depth; l++ {
		off := (pow(8, l) - 1) / 7
		if bin >= off && bin < off+pow(8, l) {
			k := bin - off
			w := pow(2, minShift+3*(depth-l))
			return k*w < end && beg < (k+1)*w
		}
	}
	return false
}

// DefBinsCount is the number of bins intersecting [beg,end).
func DefBinsCount(beg, end int64, minShift, depth int) int64 {
	var n int64
	for l := 0; l <= depth; l++ {
		w := pow(2, minShift+3*(depth-l))
		n += (end-1)/w - beg/w + 1
	}
	return n
}
