// Package oracle holds independent encoders, parsers and models written from
// the format specifications. Nothing in this package imports biogo/hts.
package oracle

// ITF-8 and LTF-8 as tabulated in the CRAM specification section 2.3: the
// number of leading one bits of the first byte announces how many bytes
// follow; the remaining bits of the first byte are the most significant
// payload bits. Written with division/modulo on the value, not the shift
// expressions the library uses.

var tfPrefix = [9]byte{0x00, 0x80, 0xC0, 0xE0, 0xF0, 0xF8, 0xFC, 0xFE, 0xFF}

// ITF8Len is the encoded length of a 32-bit value.
func ITF8Len(v int32) int {
	u := uint64(uint32(v))
	switch {
	case u < 1<<7:
		return 1
	case u < 1<<14:
		return 2
	case u < 1<<21:
		return 3
	case u < 1<<28:
		return 4
	}
	return 5
}

// ITF8Encode returns the specification's bytes for v. For the five byte form
// the high nibble of the last byte is not defined by the specification (htslib
// writes 0, htsjdk writes bits 4..7 of the value); it is returned as 0 here and
// alt holds the other accepted value of the last byte.
func ITF8Encode(v int32) (b []byte, alt byte) {
	u := uint64(uint32(v))
	n := ITF8Len(v)
	b = make([]byte, n)
	if n < 5 {
		rest := u
		for i := n - 1; i >= 1; i-- {
			b[i] = byte(rest % 256)
			rest /= 256
		}
		b[0] = tfPrefix[n-1] | byte(rest)
		return b, b[n-1]
	}
	b[0] = 0xF0 | byte(u/(1<<28))
	b[1] = byte(u / (1 << 20) % 256)
	b[2] = byte(u / (1 << 12) % 256)
	b[3] = byte(u / (1 << 4) % 256)
	b[4] = byte(u % 16)
	return b, byte(u % 256)
}

// ITF8Announced is the total length announced by a first byte.
func ITF8Announced(first byte) int {
	n := 1
	for m := byte(0x80); m >= 0x10 && first&m != 0; m >>= 1 {
		n++
	}
	return n
}

// ITF8Decode decodes per the specification.
func ITF8Decode(b []byte) (v int32, n int, ok bool) {
	if len(b) == 0 {
		return 0, 0, false
	}
	n = ITF8Announced(b[0])
	if len(b) < n {
		return 0, n, false
	}
	var u uint64
	if n < 5 {
		u = uint64(b[0]) % (1 << uint(8-n))
		for i := 1; i < n; i++ {
			u = u*256 + uint64(b[i])
		}
	} else {
		u = uint64(b[0] % 16)
		u = u*256 + uint64(b[1])
		u = u*256 + uint64(b[2])
		u = u*256 + uint64(b[3])
		u = u*16 + uint64(b[4]%16)
	}
	return int32(uint32(u)), n, true
}

// LTF8Len is the encoded length of a 64-bit value.
func LTF8Len(v int64) int {
	u := uint64(v)
	for n := 1; n <= 8; n++ {
		if u < 1<<(7*uint(n)) {
			return n
		}
	}
	return 9
}

// LTF8Encode returns the specification's bytes for v.
func LTF8Encode(v int64) []byte {
	u := uint64(v)
	n := LTF8Len(v)
	b := make([]byte, n)
	rest := u
	for i := n - 1; i >= 1; i-- {
		b[i] = byte(rest % 256)
		rest /= 256
	}
	b[0] = tfPrefix[n-1] | byte(rest)
	return b
}

// LTF8Announced is the total length announced by a first byte.
func LTF8Announced(first byte) int {
	n := 1
	for m := byte(0x80); m != 0 && first&m != 0; m >>= 1 {
		n++
	}
	return n
}

// LTF8Decode decodes per the specification.
func LTF8Decode(b []byte) (v int64, n int, ok bool) {
	if len(b) == 0 {
		return 0, 0, false
	}
	n = LTF8Announced(b[0])
	if len(b) < n {
		return 0, n, false
	}
	var u uint64
	if n < 8 {
		u = uint64(b[0]) % (1 << uint(8-n))
	}
	for i := 1; i < n; i++ {
		u = u*256 + uint64(b[i])
	}
	return int64(u), n, true
}
