package oracle

import (
	"bytes"
	"encoding/binary"
)

// Independent byte-level encoders for BAI (SAMv1 5.2), tabix (tabix
// specification) and CSIv1, used to build index files of shapes that the
// library's Add cannot produce.

type IdxChunk struct{ Beg, End uint64 }

type IdxBin struct {
	Bin     uint32
	LOffset uint64 // CSI only
	Chunks  []IdxChunk
}

type IdxStats struct {
	Beg, End         uint64
	Mapped, Unmapped uint64
}

type IdxRef struct {
	Bins      []IdxBin
	Stats     *IdxStats // nil: no pseudo bin
	Intervals []uint64  // BAI / tabix
	// StatsAt is the position of the pseudo bin among the bins (other
	// writers emit bins in hash order); beyond the last bin = last.
	StatsAt int
}

type IdxFile struct {
	Refs   []IdxRef
	NoCoor *uint64 // nil: trailing count absent
	// tabix header
	Format, ColSeq, ColBeg, ColEnd, Meta, Skip int32
	Names                                      []string
	// CSI header
	MinShift, Depth int32
	Aux             []byte
}

func w32(b *bytes.Buffer, v uint32) { binary.Write(b, binary.LittleEndian, v) }
func w64(b *bytes.Buffer, v uint64) { binary.Write(b, binary.LittleEndian, v) }

func (f *IdxFile) refsBAI(b *bytes.Buffer, pseudo uint32) {
	for _, r := range f.Refs {
		n := len(r.Bins)
		if r.Stats != nil {
			n++
		}
		w32(b, uint32(n))
		stats := func() {
			w32(b, pseudo)
			w32(b, 2)
			w64(b, r.Stats.Beg)
			w64(b, r.Stats.End)
			w64(b, r.Stats.Mapped)
			w64(b, r.Stats.Unmapped)
		}
		done := r.Stats == nil
		for i, bn := range r.Bins {
			if !done && i == r.StatsAt {
				stats()
				done = true
			}
			w32(b, bn.Bin)
			w32(b, uint32(len(bn.Chunks)))
			for _, c := range bn.Chunks {
				w64(b, c.Beg)
				w64(b, c.End)
			}
		}
		if !done {
			stats()
		}
		w32(b, uint32(len(r.Intervals)))
		for _, o := range r.Intervals {
			w64(b, o)
		}
	}
	if f.NoCoor != nil {
		w64(b, *f.NoCoor)
	}
}

// EncodeBAI encodes a BAI index file.
func (f *IdxFile) EncodeBAI() []byte {
	var b bytes.Buffer
	b.WriteString("BAI\x01")
	w32(&b, uint32(len(f.Refs)))
	f.refsBAI(&b, 37450)
	return b.Bytes()
}

// EncodeTBI encodes an (uncompressed) tabix index file.
func (f *IdxFile) EncodeTBI() []byte {
	var b bytes.Buffer
	b.WriteString("TBI\x01")
	w32(&b, uint32(len(f.Refs)))
	for _, v := range []int32{f.Format, f.ColSeq, f.ColBeg, f.ColEnd, f.Meta, f.Skip} {
		w32(&b, uint32(v))
	}
	l := 0
	for _, n := range f.Names {
		l += len(n) + 1
	}
	w32(&b, uint32(l))
	for _, n := range f.Names {
		b.WriteString(n)
		b.WriteByte(0)
	}
	f.refsBAI(&b, 37450)
	return b.Bytes()
}

// EncodeCSI encodes an (uncompressed) CSI version 1 index file.
func (f *IdxFile) EncodeCSI() []byte {
	var b bytes.Buffer
	b.WriteString("CSI\x01")
	w32(&b, uint32(f.MinShift))
	w32(&b, uint32(f.Depth))
	w32(&b, uint32(len(f.Aux)))
	b.Write(f.Aux)
	w32(&b, uint32(len(f.Refs)))
	// 64-bit arithmetic: at depth 10 the power is 2^33 (an untyped 1 would
	// take the type uint32 here and wrap, as the library's own expression does)
	pseudo := uint32((int64(1)<<uint((f.Depth+1)*3)-1)/7 + 1)
	for _, r := range f.Refs {
		n := len(r.Bins)
		if r.Stats != nil {
			n++
		}
		w32(&b, uint32(n))
		stats := func() {
			w32(&b, pseudo)
			w64(&b, 0)
			w32(&b, 2)
			w64(&b, r.Stats.Beg)
			w64(&b, r.Stats.End)
			w64(&b, r.Stats.Mapped)
			w64(&b, r.Stats.Unmapped)
		}
		done := r.Stats == nil
		for i, bn := range r.Bins {
			if !done && i == r.StatsAt {
				stats()
				done = true
			}
			w32(&b, bn.Bin)
			w64(&b, bn.LOffset)
			w32(&b, uint32(len(bn.Chunks)))
			for _, c := range bn.Chunks {
				w64(&b, c.Beg)
				w64(&b, c.End)
			}
		}
		if !done {
			stats()
		}
	}
	if f.NoCoor != nil {
		w64(&b, *f.NoCoor)
	}
	return b.Bytes()
}
