package oracle

import (
	"bytes"
	"compress/flate"
	"encoding/binary"
	"errors"
	"fmt"
	"hash/crc32"
	"io"
)

// BGZF framing written from RFC 1952 and SAMv1 section 4.1. The encoder and
// the parser below share no code with biogo/hts (only compress/flate and
// hash/crc32 from the standard library).

const (
	BlockSize    = 0xff00  // maximum payload of a member written by a conforming writer
	MaxBlockSize = 0x10000 // maximum total member length
)

// EOFMarker is the 28 byte BGZF end-of-file marker of SAMv1 4.1.2.
var EOFMarker = []byte{
	0x1f, 0x8b, 0x08, 0x04, 0x00, 0x00, 0x00, 0x00, 0x00, 0xff, 0x06, 0x00, 0x42, 0x43, 0x02, 0x00,
	0x1b, 0x00, 0x03, 0x00, 0x00, 0x00, 0x00, 0x00, 0x00, 0x00, 0x00, 0x00,
}

// MemberOpts are the gzip header settings of an encoded member.
type MemberOpts struct {
	Level       int    // flate level, -1..9
	MTime       uint32 // MTIME
	XFL, OS     byte
	Name        string // Latin-1, no NUL; "" = absent
	Comment     string
	ExtraBefore []byte // well formed subfields placed before BC
	ExtraAfter  []byte // well formed subfields placed after BC
}

// Subfield encodes one RFC 1952 extra subfield.
func Subfield(si1, si2 byte, payload []byte) []byte {
	b := []byte{si1, si2, byte(len(payload)), byte(len(payload) >> 8)}
	return append(b, payload...)
}

// EncodeMember returns one BGZF member holding data.
func EncodeMember(data []byte, o MemberOpts) ([]byte, error) {
	var body bytes.Buffer
	fw, err := flate.NewWriter(&body, o.Level)
	if err != nil {
		return nil, err
	}
	fw.Write(data)
	fw.Close()
	var m bytes.Buffer
	flg := byte(4)
	if o.Name != "" {
		flg |= 8
	}
	if o.Comment != "" {
		flg |= 16
	}
	m.Write([]byte{0x1f, 0x8b, 8, flg})
	var t [4]byte
	binary.LittleEndian.PutUint32(t[:], o.MTime)
	m.Write(t[:])
	m.WriteByte(o.XFL)
	m.WriteByte(o.OS)
	xlen := len(o.ExtraBefore) + 6 + len(o.ExtraAfter)
	m.Write([]byte{byte(xlen), byte(xlen >> 8)})
	m.Write(o.ExtraBefore)
	bcAt := m.Len()
	m.Write([]byte{'B', 'C', 2, 0, 0, 0})
	m.Write(o.ExtraAfter)
	if o.Name != "" {
		m.WriteString(o.Name)
		m.WriteByte(0)
	}
	if o.Comment != "" {
		m.WriteString(o.Comment)
		m.WriteByte(0)
	}
	m.Write(body.Bytes())
	var tr [8]byte
	binary.LittleEndian.PutUint32(tr[:4], crc32.ChecksumIEEE(data))
	binary.LittleEndian.PutUint32(tr[4:], uint32(len(data)))
	m.Write(tr[:])
	b := m.Bytes()
	if len(b) > MaxBlockSize {
		return nil, fmt.Errorf("member of %d bytes does not fit", len(b))
	}
	binary.LittleEndian.PutUint16(b[bcAt+4:], uint16(len(b)-1))
	return b, nil
}

// Member is one parsed BGZF member.
type Member struct {
	Off     int64 // offset of the member in the stream
	Len     int   // total length (BSIZE+1)
	Data    []byte
	MTime   uint32
	XFL, OS byte
	FLG     byte
	Extra   []byte
	Name    string
	Comment string
}

var ErrTruncated = errors.New("truncated member")

// ParseMember parses the member at the start of b, checking every framing rule.
func ParseMember(b []byte) (*Member, error) {
	if len(b) < 18 {
		return nil, ErrTruncated
	}
	if b[0] != 0x1f || b[1] != 0x8b || b[2] != 8 {
		return nil, fmt.Errorf("bad gzip magic/CM % x", b[:3])
	}
	m := &Member{FLG: b[3], MTime: binary.LittleEndian.Uint32(b[4:8]), XFL: b[8], OS: b[9]}
	if m.FLG&4 == 0 {
		return nil, errors.New("FLG.FEXTRA not set")
	}
	if m.FLG&0xe0 != 0 {
		return nil, fmt.Errorf("reserved FLG bits set: %#x", m.FLG)
	}
	xlen := int(binary.LittleEndian.Uint16(b[10:12]))
	if len(b) < 12+xlen {
		return nil, ErrTruncated
	}
	m.Extra = b[12 : 12+xlen]
	bsize := -1
	for x := m.Extra; len(x) > 0; {
		if len(x) < 4 {
			return nil, errors.New("malformed extra field: short subfield header")
		}
		l := int(binary.LittleEndian.Uint16(x[2:4]))
		if len(x) < 4+l {
			return nil, errors.New("malformed extra field: subfield overruns XLEN")
		}
		if x[0] == 'B' && x[1] == 'C' {
			if l != 2 {
				return nil, fmt.Errorf("BC subfield has length %d", l)
			}
			if bsize >= 0 {
				return nil, errors.New("two BC subfields")
			}
			bsize = int(binary.LittleEndian.Uint16(x[4:6]))
		}
		x = x[4+l:]
	}
	if bsize < 0 {
		return nil, errors.New("no BC subfield")
	}
	m.Len = bsize + 1
	if len(b) < m.Len {
		return nil, ErrTruncated
	}
	if m.Len < 12+xlen+8 {
		return nil, fmt.Errorf("BSIZE+1 = %d is smaller than the header and trailer", m.Len)
	}
	p := 12 + xlen
	cstr := func() (string, error) {
		i := bytes.IndexByte(b[p:m.Len], 0)
		if i < 0 {
			return "", errors.New("unterminated header string")
		}
		s := string(b[p : p+i])
		p += i + 1
		return s, nil
	}
	var err error
	if m.FLG&8 != 0 {
		if m.Name, err = cstr(); err != nil {
			return nil, err
		}
	}
	if m.FLG&16 != 0 {
		if m.Comment, err = cstr(); err != nil {
			return nil, err
		}
	}
	if m.FLG&2 != 0 {
		p += 2
	}
	if p > m.Len-8 {
		return nil, errors.New("header overruns member")
	}
	br := bytes.NewReader(b[p : m.Len-8])
	fr := flate.NewReader(br)
	m.Data, err = io.ReadAll(fr)
	if err != nil {
		return nil, fmt.Errorf("deflate data: %v", err)
	}
	if br.Len() != 0 {
		return nil, fmt.Errorf("deflate stream ends %d bytes before the trailer", br.Len())
	}
	if got, want := crc32.ChecksumIEEE(m.Data), binary.LittleEndian.Uint32(b[m.Len-8:]); got != want {
		return nil, fmt.Errorf("CRC32 mismatch: data %08x, trailer %08x", got, want)
	}
	if isize := binary.LittleEndian.Uint32(b[m.Len-4:]); int(isize) != len(m.Data) {
		return nil, fmt.Errorf("ISIZE %d but %d bytes of data", isize, len(m.Data))
	}
	return m, nil
}

// ParseStream parses b as a sequence of whole members. It returns the
// members parsed before the first error (if any).
func ParseStream(b []byte) ([]*Member, error) {
	var ms []*Member
	off := int64(0)
	for len(b) > 0 {
		m, err := ParseMember(b)
		if err != nil {
			return ms, fmt.Errorf("member %d at offset %d: %w", len(ms), off, err)
		}
		m.Off = off
		ms = append(ms, m)
		b = b[m.Len:]
		off += int64(m.Len)
	}
	return ms, nil
}

// HasEOFMarker reports whether b ends with the EOF marker.
func HasEOFMarker(b []byte) bool {
	return len(b) >= len(EOFMarker) && bytes.Equal(b[len(b)-len(EOFMarker):], EOFMarker)
}
