package oracle

// CIGAR arithmetic from SAMv1 section 1.4.6 (which operations consume query
// and reference) plus, for the non-standard B operation, the consumption table
// documented by the library (query 0, reference -1) and its "rightmost
// coordinate reached" rule for the alignment end.

// Op codes in BAM order: M I D N S H P = X B.
type CigOp struct {
	Op  int
	Len int
}

var consQ = [16]int{1, 1, 0, 0, 1, 0, 0, 1, 1, 0}
var consR = [16]int{1, 0, 1, 1, 0, 0, 0, 1, 1, -1}

// RefQueryLens returns the reference and query lengths (B does not subtract
// from the reference length, as the library documents for Lengths).
func RefQueryLens(c []CigOp) (ref, query int) {
	for _, o := range c {
		if o.Op != 9 {
			ref += o.Len * consR[o.Op]
		}
		query += o.Len * consQ[o.Op]
	}
	return
}

// AlignEnd is the alignment end for a mapped record with a CIGAR: position
// plus the reference bases consumed; with B operations the rightmost
// coordinate reached by any prefix.
func AlignEnd(pos int, c []CigOp) int {
	p, end := pos, pos
	for _, o := range c {
		p += o.Len * consR[o.Op]
		if p > end {
			end = p
		}
	}
	return end
}

// BinSpan is the interval used for binning: unmapped reads and reads whose
// CIGAR consumes no reference are treated as having length one (SAMv1 4.2.1).
func BinSpan(pos int, unmapped bool, c []CigOp) (int, int) {
	if unmapped || len(c) == 0 {
		return pos, pos + 1
	}
	e := AlignEnd(pos, c)
	if e <= pos {
		e = pos + 1
	}
	return pos, e
}

// CigarValid: the query-consuming lengths sum to seqLen; H only as first or
// last operation; S only with nothing but H between it and an end; with B, no
// query-consuming operation may start left of the alignment start.
func CigarValid(c []CigOp, seqLen int) bool {
	q := 0
	p := 0
	for i, o := range c {
		if o.Op == 5 && i != 0 && i != len(c)-1 {
			return false
		}
		if o.Op == 4 {
			before, after := true, true
			for _, x := range c[:i] {
				if x.Op != 5 {
					before = false
				}
			}
			for _, x := range c[i+1:] {
				if x.Op != 5 {
					after = false
				}
			}
			if !before && !after {
				return false
			}
		}
		if p < 0 && consQ[o.Op] != 0 {
			return false
		}
		q += o.Len * consQ[o.Op]
		p += o.Len * consR[o.Op]
	}
	return q == seqLen
}
