// Package core is the common machinery of the runtime-monitoring harness:
// case planning, child-process isolation, death classification, race-log
// parsing, known-finding matching, evidence and replay files.
package core

import (
	"encoding/json"
	"fmt"
	"hash/fnv"
	"math/rand"
	"os"
	"runtime"
	"runtime/debug"
	"sort"
	"strings"
)

// Case is one planned execution. Everything a case does is a pure function
// of (Kind, Seed, P, S); generators re-derive inputs from Seed in the child.
type Case struct {
	ID   int               `json:"id"`
	Kind string            `json:"kind"`
	Seed int64             `json:"seed"`
	P    map[string]int64  `json:"p,omitempty"`
	S    map[string]string `json:"s,omitempty"`
	Race bool              `json:"race,omitempty"` // repeat under the -race build
}

func (c Case) Int(k string) int     { return int(c.P[k]) }
func (c Case) Int64(k string) int64 { return c.P[k] }
func (c Case) Str(k string) string  { return c.S[k] }

// Violation is one refutation of the property by an observed execution.
type Violation struct {
	Sig    string `json:"sig"`    // stable signature used for known-finding matching
	Detail string `json:"detail"` // human readable: expected vs observed
}

// Result is what a child reports for one case.
type Result struct {
	ID         int                 `json:"id"`
	FP         string              `json:"fp"` // fingerprint for distinctness
	Nontrivial bool                `json:"nt"`
	Counters   map[string]int64    `json:"c,omitempty"`
	Sets       map[string][]string `json:"s,omitempty"`
	Sample     any                 `json:"sample,omitempty"`
	Viol       []Violation         `json:"viol,omitempty"`
	NotJudged  string              `json:"nj,omitempty"`
	// Evals is the number of individual evaluations inside the case
	// (0 means 1). DistinctNT is the number of distinct non-trivial
	// inputs inside the case that no other case covers (cases that
	// partition a space); when 0 the case counts once by FP.
	Evals      int64 `json:"ev,omitempty"`
	DistinctNT int64 `json:"dnt,omitempty"`
	// Echo is the case itself, set for cases the parent did not plan
	// (re-queued parts of a resumable case).
	Echo *Case `json:"echo,omitempty"`

	racePhase bool
}

func NewResult() *Result {
	return &Result{Counters: map[string]int64{}, Sets: map[string][]string{}}
}

func (r *Result) Count(k string, n int64) { r.Counters[k] += n }
func (r *Result) Add(set, v string) {
	for _, x := range r.Sets[set] {
		if x == v {
			return
		}
	}
	if len(r.Sets[set]) < 64 {
		r.Sets[set] = append(r.Sets[set], v)
	}
}
func (r *Result) Violate(sig, format string, a ...any) {
	if len(r.Viol) >= 8 {
		return
	}
	d := fmt.Sprintf(format, a...)
	if len(d) > 4000 {
		d = d[:4000] + "…"
	}
	r.Viol = append(r.Viol, Violation{Sig: sig, Detail: d})
}

// Prop describes one property's check.
type Prop struct {
	ID          string
	Level       string // exploration | fault_enumeration
	Rule        string
	Floor       map[string]int // tier -> minimum distinct nontrivial cases
	Plan        func(seed int64, tier string) []Case
	Run         func(c Case) *Result
	Exhaustive  bool
	ExhaustNote string
	Assumptions []string
	// Timeout per child in seconds by tier (wall-clock backstop only).
	TimeoutS map[string]int
	// MemLimitKB applies ulimit -v to plain children (0 = none).
	MemLimitKB int
	// Workers overrides the number of parallel children (0 = default).
	Workers int
	// Resumable: a case iterates over inputs and prints "@input <k>" to
	// stderr before each; after an out-of-memory death the parent re-runs
	// the case without input k (P["from"], P["to"] bound the inputs).
	Resumable bool
	// ChildEnv is added to the environment of children.
	ChildEnv []string
}

var Props = map[string]*Prop{}

func Register(p *Prop) { Props[p.ID] = p }

// Rng returns the PRNG for a case.
func (c Case) Rng() *rand.Rand { return rand.New(rand.NewSource(c.Seed)) }

// SubSeed derives a stable seed.
func SubSeed(seed int64, parts ...any) int64 {
	h := fnv.New64a()
	fmt.Fprint(h, seed)
	for _, p := range parts {
		fmt.Fprint(h, "|", p)
	}
	return int64(h.Sum64() & 0x7fffffffffffffff)
}

func Hash(parts ...any) string {
	h := fnv.New64a()
	for _, p := range parts {
		fmt.Fprint(h, p, "|")
	}
	return fmt.Sprintf("%016x", h.Sum64())
}

// Guard runs f, converting a panic on this goroutine into a violation with a
// signature built from the top library frame (function name, no line number).
func Guard(r *Result, entry string, f func()) (panicked bool) {
	defer func() {
		if e := recover(); e != nil {
			panicked = true
			st := string(debug.Stack())
			fn := TopLibFrame(st)
			msg := fmt.Sprint(e)
			r.Violate(fmt.Sprintf("panic|%s|%s|%s", entry, fn, PanicClass(msg)), "panic in %s: %v\n%s", entry, msg, trimStack(st))
		}
	}()
	f()
	return false
}

// GuardErr is Guard for callers that want the panic value instead of a violation.
func Recover(f func()) (pv any, stack string) {
	defer func() {
		if e := recover(); e != nil {
			pv = e
			stack = string(debug.Stack())
		}
	}()
	f()
	return nil, ""
}

func trimStack(st string) string {
	lines := strings.Split(st, "\n")
	if len(lines) > 40 {
		lines = lines[:40]
	}
	return strings.Join(lines, "\n")
}

// PanicClass reduces a panic message to a stable class.
func PanicClass(msg string) string {
	switch {
	case strings.Contains(msg, "index out of range"):
		return "index out of range"
	case strings.Contains(msg, "slice bounds out of range"):
		return "slice bounds out of range"
	case strings.Contains(msg, "nil pointer dereference"):
		return "nil pointer dereference"
	case strings.Contains(msg, "makeslice"):
		return "makeslice"
	case strings.Contains(msg, "nil map"):
		return "nil map"
	case strings.Contains(msg, "divide by zero"):
		return "divide by zero"
	}
	if len(msg) > 60 {
		msg = msg[:60]
	}
	return msg
}

// TopLibFrame returns the innermost function of github.com/biogo/hts in a
// stack trace text (as produced by debug.Stack or a runtime crash dump).
func TopLibFrame(st string) string {
	for _, l := range strings.Split(st, "\n") {
		l = strings.TrimSpace(l)
		if strings.HasPrefix(l, "github.com/biogo/hts/") {
			if i := strings.LastIndex(l, "("); i > 0 {
				l = l[:i]
			}
			return strings.TrimPrefix(l, "github.com/biogo/hts/")
		}
	}
	return "?"
}

// LibGoroutines returns the goroutine dumps (from runtime.Stack(all)) that
// contain a frame of the given library package prefix, excluding the caller's.
func LibGoroutines(prefix string) []string {
	buf := make([]byte, 1<<20)
	n := runtime.Stack(buf, true)
	var out []string
	for i, g := range strings.Split(string(buf[:n]), "\n\n") {
		if i == 0 {
			continue // the calling goroutine
		}
		if strings.Contains(g, prefix) {
			out = append(out, g)
		}
	}
	return out
}

func WriteJSON(path string, v any) error {
	b, err := json.MarshalIndent(v, "", " ")
	if err != nil {
		return err
	}
	return os.WriteFile(path, append(b, '\n'), 0o644)
}

func SortedKeys[V any](m map[string]V) []string {
	ks := make([]string, 0, len(m))
	for k := range m {
		ks = append(ks, k)
	}
	sort.Strings(ks)
	return ks
}
