package core

import "testing"

func TestClassifyGrowslice(t *testing.T) {
	harness := "fatal error: out of memory\n\ngoroutine 1 [running]:\nruntime.throw({0x1?, 0x2?})\n\t/usr/lib/go/src/runtime/panic.go:1 +0x48\nruntime.growslice(0x1, 0x2)\n\t/usr/lib/go/src/runtime/slice.go:272 +0x55d\nverif/prop.c11AuxFamily.func1(...)\n\t/verif/harness/prop/c11.go:266\nverif/core.ChildMain()\n\t/x.go:1\n\ngoroutine 2 [idle]:\n"
	lib := "fatal error: out of memory\n\ngoroutine 1 [running]:\nruntime.throw({0x1?, 0x2?})\n\t/usr/lib/go/src/runtime/panic.go:1 +0x48\nruntime.growslice(0x1, 0x2)\n\t/usr/lib/go/src/runtime/slice.go:272 +0x55d\ngithub.com/biogo/hts/bam.parseAux({0x1})\n\t/repo/bam/reader.go:351\nverif/prop.x()\n\t/x.go:1\n\ngoroutine 2 [idle]:\n"
	if c, f, _ := ClassifyDeath(harness, false); c != "oom" || f != "?|growslice-in-harness" {
		t.Errorf("harness: %s %s", c, f)
	}
	if c, f, _ := ClassifyDeath(lib, false); c != "oom" || f != "bam.parseAux|growslice" {
		t.Errorf("lib: %s %s", c, f)
	}
}
