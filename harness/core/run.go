package core

import (
	"bufio"
	"bytes"
	"encoding/json"
	"fmt"
	"os"
	"os/exec"
	"path/filepath"
	"regexp"
	"sort"
	"strconv"
	"strings"
	"sync"
	"syscall"
	"time"
)

// Root is the /verif directory (VERIF_ROOT overrides).
func Root() string {
	if r := os.Getenv("VERIF_ROOT"); r != "" {
		return r
	}
	return "/verif"
}

type childLine struct {
	Start   *int       `json:"start,omitempty"`
	Res     *Result    `json:"res,omitempty"`
	Partial *Violation `json:"partial,omitempty"` // a violation of the running case, written at once
	Judged  *int64     `json:"judged,omitempty"`  // evaluations of the running case so far
}

var earlyOut *os.File

// ReportEarly writes a violation of the running case to the child's result
// file immediately, so that it survives if the process dies later in the case.
func ReportEarly(v Violation, judged int64) {
	if earlyOut == nil {
		return
	}
	b, _ := json.Marshal(childLine{Partial: &v, Judged: &judged})
	earlyOut.Write(append(b, '\n'))
}

// ChildMain runs the cases in casesPath sequentially on the main goroutine.
// It starts no helper goroutines and no timers so that the Go runtime's own
// deadlock detector decides "this call never returns".
func ChildMain(propID, casesPath, outPath string) {
	p := Props[propID]
	if p == nil {
		fmt.Fprintln(os.Stderr, "unknown property", propID)
		os.Exit(3)
	}
	data, err := os.ReadFile(casesPath)
	if err != nil {
		fmt.Fprintln(os.Stderr, err)
		os.Exit(3)
	}
	var cases []Case
	if err := json.Unmarshal(data, &cases); err != nil {
		fmt.Fprintln(os.Stderr, err)
		os.Exit(3)
	}
	out, err := os.OpenFile(outPath, os.O_CREATE|os.O_WRONLY|os.O_APPEND, 0o644)
	if err != nil {
		fmt.Fprintln(os.Stderr, err)
		os.Exit(3)
	}
	earlyOut = out
	for _, c := range cases {
		id := c.ID
		b, _ := json.Marshal(childLine{Start: &id})
		out.Write(append(b, '\n'))
		var res *Result
		func() {
			res = NewResult()
			res.ID = c.ID
			tmp := res
			if Guard(tmp, "case:"+c.Kind, func() { res = p.Run(c) }) {
				res = tmp
			}
		}()
		if res == nil {
			res = NewResult()
		}
		res.ID = c.ID
		if _, ok := c.P["from"]; ok {
			cc := c
			res.Echo = &cc
		}
		b, err := json.Marshal(childLine{Res: res})
		if err != nil {
			res.Sample = nil
			b, _ = json.Marshal(childLine{Res: res})
		}
		out.Write(append(b, '\n'))
	}
	out.Close()
	os.Exit(0)
}

type shardOutcome struct {
	results      []*Result
	inconclusive []string
}

type runner struct {
	prop    *Prop
	tier    string
	seed    int64
	work    string
	self    string
	mu      sync.Mutex
	nextTmp int
	nextID  int
}

// freshID numbers cases created at run time (parts of a resumable case).
func (rn *runner) freshID() int {
	rn.mu.Lock()
	defer rn.mu.Unlock()
	rn.nextID++
	return 1000000 + rn.nextID
}

func (rn *runner) tmp(prefix string) string {
	rn.mu.Lock()
	defer rn.mu.Unlock()
	rn.nextTmp++
	return filepath.Join(rn.work, fmt.Sprintf("%s%d", prefix, rn.nextTmp))
}

// raceBatch is the largest number of cases one -race child is given.
const raceBatch = 40

// runShard runs the cases in one or more child processes (restarting after a
// death) and returns one Result per case that was judged.
func (rn *runner) runShard(cases []Case, race bool) shardOutcome {
	var oc shardOutcome
	restarts, ooms := 0, 0
	for len(cases) > 0 {
		cp := rn.tmp("cases")
		op := rn.tmp("out")
		ep := rn.tmp("err")
		// A -race child gets a bounded batch: its watchdog is a fixed wall
		// time, and a long list of slow cases must not be mistaken for a stall.
		cur := cases
		if race && len(cur) > raceBatch {
			cur = cases[:raceBatch]
		}
		b, _ := json.Marshal(cur)
		os.WriteFile(cp, b, 0o644)
		bin := rn.self
		env := append(os.Environ(), rn.prop.ChildEnv...)
		if race {
			bin = rn.self + "-race"
			env = append(env, "GORACE=halt_on_error=1 exitcode=66")
		}
		var cmd *exec.Cmd
		if rn.prop.MemLimitKB > 0 && !race {
			cmd = exec.Command("sh", "-c", fmt.Sprintf("ulimit -v %d; exec %q --child %s %q %q", rn.prop.MemLimitKB, bin, rn.prop.ID, cp, op))
		} else {
			cmd = exec.Command(bin, "--child", rn.prop.ID, cp, op)
		}
		cmd.Env = env
		ef, _ := os.Create(ep)
		cmd.Stdout = ef
		cmd.Stderr = ef
		to := 900
		if t, ok := rn.prop.TimeoutS[rn.tier]; ok {
			to = t
		}
		if race {
			// A -race child cannot use the runtime's deadlock detector (cgo);
			// a stall there is cut short and reported as inconclusive.
			to = 300
			if rn.tier == "thorough" {
				to = 1500
			}
		}
		timedOut := false
		if err := cmd.Start(); err != nil {
			oc.inconclusive = append(oc.inconclusive, "cannot start child: "+err.Error())
			return oc
		}
		done := make(chan error, 1)
		go func() { done <- cmd.Wait() }()
		var werr error
		select {
		case werr = <-done:
		case <-time.After(time.Duration(to) * time.Second):
			timedOut = true
			cmd.Process.Signal(syscall.SIGQUIT)
			select {
			case werr = <-done:
			case <-time.After(10 * time.Second):
				cmd.Process.Kill()
				werr = <-done
			}
		}
		ef.Close()
		// Collect results.
		finished := map[int]bool{}
		started := -1
		partial := map[int][]Violation{}
		if f, err := os.Open(op); err == nil {
			sc := bufio.NewScanner(f)
			sc.Buffer(make([]byte, 1<<20), 1<<28)
			for sc.Scan() {
				var l childLine
				if json.Unmarshal(sc.Bytes(), &l) != nil {
					continue
				}
				if l.Start != nil {
					started = *l.Start
				}
				if l.Partial != nil {
					partial[started] = append(partial[started], *l.Partial)
				}
				if l.Res != nil {
					finished[l.Res.ID] = true
					oc.results = append(oc.results, l.Res)
				}
			}
			f.Close()
		}
		if werr == nil && !timedOut {
			os.Remove(cp)
			os.Remove(op)
			os.Remove(ep)
			cases = cases[len(cur):]
			continue
		}
		// The child died. Attribute to the started-but-unfinished case.
		stderr, _ := os.ReadFile(ep)
		idx := -1
		for i, c := range cases {
			if c.ID == started && !finished[c.ID] {
				idx = i
			}
		}
		if idx < 0 {
			// Died outside any case (start-up or exit): cannot attribute.
			oc.inconclusive = append(oc.inconclusive, fmt.Sprintf("child died outside a case (race=%v): %s", race, tail(string(stderr), 600)))
			break
		}
		dead := cases[idx]
		res := NewResult()
		res.ID = dead.ID
		class, frame, detail := ClassifyDeath(string(stderr), timedOut)
		var requeue []Case
		switch {
		case class == "oom":
			res.Add("oom_sites", frame)
			res.Count("oom@"+frame, 1)
			if strings.HasSuffix(frame, "|growslice") {
				// Not one allocation of a declared size: a slice that grew
				// step by step until the limit. Inputs are at most a few MB,
				// so the loop is not consuming input - it is a call that
				// does not return, ended only by the memory limit.
				res.Viol = append(res.Viol, Violation{
					Sig:    fmt.Sprintf("death|unbounded-growth|%s|%s", dead.Kind, strings.TrimSuffix(frame, "|growslice")),
					Detail: "memory grew step by step (append in a loop) up to the limit; the call would not have returned\n" + detail,
				})
			} else {
				res.NotJudged = "oom"
			}
			if rn.prop.Resumable {
				if k, ok := lastInputMarker(string(stderr)); ok {
					lo, hi := int64(0), int64(-1)
					if v, ok := dead.P["from"]; ok {
						lo = v
					}
					if v, ok := dead.P["to"]; ok {
						hi = v
					}
					mk := func(from, to int64) Case {
						c := dead
						c.ID = rn.freshID()
						c.P = map[string]int64{}
						for kk, vv := range dead.P {
							c.P[kk] = vv
						}
						c.P["from"], c.P["to"] = from, to
						return c
					}
					// inputs before k were judged in the dead run (their
					// violations were written early); go on after k
					res.Evals = int64(k) - lo
					res.Viol = append(res.Viol, partial[dead.ID]...)
					if hi < 0 || int64(k)+1 < hi {
						requeue = append(requeue, mk(int64(k)+1, hi))
					}
				}
			}
		case class == "watchdog":
			oc.inconclusive = append(oc.inconclusive, fmt.Sprintf("watchdog (%ds, race=%v) on case %d kind=%s seed=%d: %s", to, race, dead.ID, dead.Kind, dead.Seed, tail(detail, 1500)))
			res.NotJudged = "watchdog"
		default:
			res.Viol = append(res.Viol, Violation{
				Sig:    fmt.Sprintf("death|%s|%s|%s", class, dead.Kind, frame),
				Detail: detail,
			})
		}
		oc.results = append(oc.results, res)
		cases = append(requeue, cases[idx+1:]...)
		// Deaths by the memory limit are expected where inputs are hostile
		// (counted, not judged) and only cost a restart; any other kind of
		// death in such numbers means the run is not telling us anything.
		if class == "oom" {
			ooms++
		} else {
			restarts++
		}
		if restarts > 400 || ooms > 50000 {
			oc.inconclusive = append(oc.inconclusive, fmt.Sprintf("%d child deaths and %d memory-limit deaths in one shard; remaining cases not run", restarts, ooms))
			break
		}
	}
	return oc
}

var reInput = regexp.MustCompile(`(?m)^@input (\d+)`)

// lastInputMarker finds the last "@input k" line a resumable case printed.
func lastInputMarker(stderr string) (int, bool) {
	m := reInput.FindAllStringSubmatch(stderr, -1)
	if len(m) == 0 {
		return 0, false
	}
	k, err := strconv.Atoi(m[len(m)-1][1])
	return k, err == nil
}

func tail(s string, n int) string {
	if len(s) > n {
		return "…" + s[len(s)-n:]
	}
	return s
}

var reGoroutine1 = regexp.MustCompile(`(?s)goroutine 1 \[[^\]]*\]:\n(.*?)(\n\n|$)`)

// ClassifyDeath maps a dead child's stderr to (class, top library frame, detail).
func ClassifyDeath(stderr string, timedOut bool) (class, frame, detail string) {
	detail = stderr
	if len(detail) > 12000 {
		// keep the tail (the crash dump) and a little of the head
		detail = detail[:1500] + "\n…\n" + detail[len(detail)-10000:]
	}
	switch {
	case strings.Contains(stderr, "all goroutines are asleep - deadlock!"):
		class = "deadlock"
		if m := reGoroutine1.FindStringSubmatch(stderr); m != nil {
			frame = TopLibFrame(m[1])
		}
	case strings.Contains(stderr, "WARNING: DATA RACE"):
		class = "race"
		a, b := raceFrames(stderr)
		frame = a + "~" + b
		if i := strings.Index(stderr, "WARNING: DATA RACE"); i >= 0 {
			detail = stderr[i:]
			if len(detail) > 6000 {
				detail = detail[:6000]
			}
		}
	case strings.Contains(stderr, "stack overflow") || strings.Contains(stderr, "goroutine stack exceeds"):
		class = "stack overflow"
		frame = TopLibFrame(stderr)
	case strings.Contains(stderr, "fatal error: checkptr"):
		class = "checkptr"
		frame = TopLibFrame(stderr)
	case strings.Contains(stderr, "out of memory") || strings.Contains(stderr, "cannot allocate memory"):
		class = "oom"
		// where, and how: one allocation of a declared size (makeslice and
		// friends) or a slice growing step by step (growslice)
		if i := strings.Index(stderr, "fatal error: "); i >= 0 {
			st := stderr[i:]
			if j := strings.Index(st, "\ngoroutine "); j >= 0 {
				st = st[j:]
				if k := strings.Index(st[1:], "\n\n"); k >= 0 {
					st = st[:k+1]
				}
			}
			how := "alloc"
			switch {
			case strings.Contains(st, "runtime.growslice"):
				how = "growslice"
				// the slice that grew must be the library's: the first frame
				// that is not the runtime's has to be a library function (a
				// harness slice growing in a child that is already close to
				// the limit says nothing about the library)
				for _, l := range strings.Split(st, "\n") {
					l = strings.TrimSpace(l)
					if l == "" || strings.HasPrefix(l, "goroutine ") || strings.HasPrefix(l, "runtime.") || strings.HasPrefix(l, "/") {
						continue
					}
					if !strings.HasPrefix(l, "github.com/biogo/hts/") {
						how = "growslice-in-harness"
					}
					break
				}
			case strings.Contains(st, "runtime.makeslice"):
				how = "makeslice"
			}
			frame = TopLibFrame(st) + "|" + how
		}
	case strings.Contains(stderr, "concurrent map"):
		class = "concurrent map"
		frame = TopLibFrame(stderr)
	case timedOut || strings.Contains(stderr, "SIGQUIT"):
		class = "watchdog"
	case strings.Contains(stderr, "panic: "):
		class = "panic"
		i := strings.Index(stderr, "panic: ")
		msg := stderr[i+7:]
		if j := strings.IndexByte(msg, '\n'); j > 0 {
			msg = msg[:j]
		}
		frame = TopLibFrame(stderr[i:]) + "|" + PanicClass(msg)
	case strings.Contains(stderr, "fatal error: "):
		class = "fatal"
		i := strings.Index(stderr, "fatal error: ")
		msg := stderr[i+13:]
		if j := strings.IndexByte(msg, '\n'); j > 0 {
			msg = msg[:j]
		}
		frame = TopLibFrame(stderr[i:]) + "|" + msg
	default:
		class = "died"
	}
	if frame == "" {
		frame = "?"
	}
	return
}

// raceFrames returns the innermost library frames of the two accesses.
func raceFrames(report string) (string, string) {
	i := strings.Index(report, "WARNING: DATA RACE")
	if i < 0 {
		return "?", "?"
	}
	report = report[i:]
	secs := strings.Split(report, "\n\n")
	var fr []string
	for _, s := range secs {
		t := strings.TrimSpace(s)
		if strings.HasPrefix(t, "WARNING: DATA RACE") || strings.HasPrefix(t, "Previous ") || strings.HasPrefix(t, "Read at") || strings.HasPrefix(t, "Write at") {
			f := "?"
			for _, l := range strings.Split(t, "\n") {
				l = strings.TrimSpace(l)
				if strings.HasPrefix(l, "github.com/biogo/hts/") {
					if k := strings.LastIndex(l, "("); k > 0 {
						l = l[:k]
					}
					f = strings.TrimPrefix(l, "github.com/biogo/hts/")
					break
				}
			}
			fr = append(fr, f)
			if len(fr) == 2 {
				break
			}
		}
	}
	for len(fr) < 2 {
		fr = append(fr, "?")
	}
	sort.Strings(fr)
	return fr[0], fr[1]
}

// Finding is one entry of known_findings.json.
type Finding struct {
	Property string `json:"property"`
	Status   string `json:"status"` // open | fixed
	SigRegex string `json:"sig_regex,omitempty"`
	What     string `json:"what"`
	Record   string `json:"record,omitempty"` // "fixed: property=<id> <commit> <what failed>"
	Witness  string `json:"witness,omitempty"`
}

type findingsFile struct {
	Findings []Finding `json:"findings"`
}

func loadFindings() []Finding {
	var ff findingsFile
	b, err := os.ReadFile(filepath.Join(Root(), "known_findings.json"))
	if err != nil {
		return nil
	}
	if json.Unmarshal(b, &ff) != nil {
		fmt.Fprintln(os.Stderr, "warning: known_findings.json does not parse; ignoring it")
		return nil
	}
	return ff.Findings
}

type replayFile struct {
	Property  string    `json:"property"`
	Tier      string    `json:"tier"`
	Seed      int64     `json:"seed"`
	Case      Case      `json:"case"`
	Violation Violation `json:"violation"`
	Replay    string    `json:"replay_cmd"`
}

// ParentMain plans, runs and judges one property. Returns the exit code.
func ParentMain(propID, tier, replay string) int {
	p := Props[propID]
	if p == nil {
		fmt.Fprintln(os.Stderr, "unknown property", propID)
		return 3
	}
	t0 := time.Now()
	seed := int64(1)
	if s := os.Getenv("VERIF_SEED"); s != "" {
		if v, err := strconv.ParseInt(s, 10, 64); err == nil {
			seed = v
		}
	}
	self, _ := os.Executable()
	work := filepath.Join(Root(), ".work", fmt.Sprintf("%s-%d", propID, os.Getpid()))
	os.MkdirAll(work, 0o755)
	defer os.RemoveAll(work)
	rn := &runner{prop: p, tier: tier, seed: seed, work: work, self: self}

	var cases []Case
	if replay != "" {
		var rf replayFile
		b, err := os.ReadFile(replay)
		if err != nil || json.Unmarshal(b, &rf) != nil {
			fmt.Fprintln(os.Stderr, "cannot read replay file", replay)
			return 3
		}
		cases = []Case{rf.Case}
	} else {
		cases = p.Plan(seed, tier)
		if only := os.Getenv("VERIF_ONLY_KIND"); only != "" {
			var f []Case
			for _, c := range cases {
				if c.Kind == only {
					f = append(f, c)
				}
			}
			cases = f
		}
		for i := range cases {
			cases[i].ID = i
		}
	}
	byID := map[int]Case{}
	for _, c := range cases {
		byID[c.ID] = c
	}

	workers := 16
	if p.Workers > 0 {
		workers = p.Workers
	}
	if workers > len(cases) {
		workers = len(cases)
	}
	if workers < 1 {
		workers = 1
	}
	runAll := func(cs []Case, race bool) shardOutcome {
		w := workers
		if w > len(cs) {
			w = len(cs)
		}
		if w < 1 {
			return shardOutcome{}
		}
		shards := make([][]Case, w)
		for i, c := range cs {
			shards[i%w] = append(shards[i%w], c)
		}
		outs := make([]shardOutcome, w)
		var wg sync.WaitGroup
		for i := range shards {
			wg.Add(1)
			go func(i int) {
				defer wg.Done()
				outs[i] = rn.runShard(shards[i], race)
			}(i)
		}
		wg.Wait()
		var all shardOutcome
		for _, o := range outs {
			all.results = append(all.results, o.results...)
			all.inconclusive = append(all.inconclusive, o.inconclusive...)
		}
		return all
	}

	plain := runAll(cases, false)
	results := plain.results
	inconclusive := plain.inconclusive

	// Race phase: cases flagged Race that did not already violate.
	raceRuns := 0
	if _, err := os.Stat(self + "-race"); err == nil {
		bad := map[int]bool{}
		for _, r := range results {
			if len(r.Viol) > 0 || r.NotJudged != "" {
				bad[r.ID] = true
			}
		}
		var rc []Case
		for _, c := range cases {
			if c.Race && !bad[c.ID] {
				rc = append(rc, c)
			}
		}
		if len(rc) > 0 {
			ro := runAll(rc, true)
			raceRuns = len(ro.results)
			for _, r := range ro.results {
				// Only violations and counters from the race phase are merged;
				// fingerprints were already counted in the plain phase.
				rr := &Result{ID: r.ID, Viol: r.Viol, Counters: map[string]int64{}, Sets: map[string][]string{}, racePhase: true}
				for k, v := range r.Counters {
					if k == "pure_race_runs" || k == "hook_events" {
						rr.Counters["racebuild_"+k] = v
					}
				}
				for i := range rr.Viol {
					if !strings.HasPrefix(rr.Viol[i].Sig, "death|race") {
						rr.Viol[i].Sig = "underrace|" + rr.Viol[i].Sig
					}
				}
				if r.NotJudged == "watchdog" {
					rr.NotJudged = "race-watchdog"
				}
				rr.FP = ""
				results = append(results, rr)
			}
			inconclusive = append(inconclusive, ro.inconclusive...)
		}
	}

	// Aggregate.
	sort.SliceStable(results, func(i, j int) bool { return results[i].ID < results[j].ID })
	counters := map[string]int64{}
	sets := map[string]map[string]bool{}
	fps := map[string]bool{}
	var samples []any
	notJudged := map[string]int{}
	evaluations := 0
	extraDistinct := 0
	type vrec struct {
		c Case
		v Violation
	}
	var viols []vrec
	for _, r := range results {
		if r.Echo != nil {
			byID[r.ID] = *r.Echo
		}
		if !r.racePhase {
			if r.Evals > 0 {
				evaluations += int(r.Evals)
			} else {
				evaluations++
			}
		}
		extraDistinct += int(r.DistinctNT)
		if r.NotJudged != "" {
			notJudged[r.NotJudged]++
		}
		if r.Nontrivial && r.FP != "" && r.DistinctNT == 0 {
			fps[r.FP] = true
		}
		for k, v := range r.Counters {
			counters[k] += v
		}
		for k, vs := range r.Sets {
			if sets[k] == nil {
				sets[k] = map[string]bool{}
			}
			for _, v := range vs {
				sets[k][v] = true
			}
		}
		if r.Sample != nil && len(samples) < 5 {
			samples = append(samples, map[string]any{"case": byID[r.ID], "observed": r.Sample})
		}
		for _, v := range r.Viol {
			viols = append(viols, vrec{byID[r.ID], v})
		}
	}
	if len(samples) == 0 {
		for i, c := range cases {
			if i >= 3 {
				break
			}
			samples = append(samples, map[string]any{"case": c})
		}
	}

	// Judge violations against known findings.
	findings := loadFindings()
	var res []*regexp.Regexp
	for _, f := range findings {
		if f.Property == propID && f.Status == "open" && f.SigRegex != "" {
			re, err := regexp.Compile(f.SigRegex)
			if err != nil {
				fmt.Fprintln(os.Stderr, "warning: bad sig_regex in known_findings.json:", f.SigRegex)
				res = append(res, nil)
				continue
			}
			res = append(res, re)
		} else {
			res = append(res, nil)
		}
	}
	knownHit := map[int]int{}
	seenSig := map[string]bool{}
	newViol := 0
	os.MkdirAll(filepath.Join(Root(), "replays"), 0o755)
	var out bytes.Buffer
	for _, vr := range viols {
		matched := -1
		for i, re := range res {
			if re != nil && re.MatchString(vr.v.Sig) {
				matched = i
				break
			}
		}
		if matched >= 0 {
			knownHit[matched]++
			continue
		}
		newViol++
		if seenSig[vr.v.Sig] {
			continue
		}
		seenSig[vr.v.Sig] = true
		rp := filepath.Join(Root(), "replays", fmt.Sprintf("%s-%s.json", propID, Hash(vr.c.Kind, vr.c.Seed, vr.c.P, vr.c.S, vr.v.Sig)))
		WriteJSON(rp, replayFile{Property: propID, Tier: tier, Seed: seed, Case: vr.c, Violation: vr.v,
			Replay: fmt.Sprintf("./check %s --replay %s", propID, rp)})
		fmt.Fprintf(&out, "VIOLATION property=%s replay=%s\n", propID, rp)
		fmt.Fprintf(&out, "  sig: %s\n  %s\n", vr.v.Sig, strings.ReplaceAll(firstLines(vr.v.Detail, 12), "\n", "\n  "))
	}
	for i, n := range knownHit {
		fmt.Fprintf(&out, "KNOWN-FINDING: property=%s %s (matched %d observed executions)\n", propID, findings[i].What, n)
	}
	// Open findings that were not observed in this run are still listed, so
	// that the line is printed for each listed finding on the unchanged tree.
	for i, f := range findings {
		if f.Property == propID && f.Status == "open" && knownHit[i] == 0 {
			fmt.Fprintf(&out, "KNOWN-FINDING: property=%s %s (not reproduced by this run's cases)\n", propID, f.What)
		}
	}

	distinct := len(fps) + extraDistinct
	cov := map[string]any{
		"evaluations":         evaluations,
		"distinct_nontrivial": distinct,
		"rule":                p.Rule,
		"samples":             samples,
		"exhaustive":          p.Exhaustive && replay == "",
		"cases_planned":       len(cases),
		"race_build_cases":    raceRuns,
		"counters":            counters,
		"not_judged":          notJudged,
		"inconclusive":        inconclusive,
		"known_finding_hits":  len(knownHit),
	}
	if p.ExhaustNote != "" {
		cov["exhaustive_note"] = p.ExhaustNote
	}
	setCounts := map[string]int{}
	setSamples := map[string][]string{}
	for k, m := range sets {
		setCounts[k] = len(m)
		ks := SortedKeys(m)
		if len(ks) > 12 {
			ks = ks[:12]
		}
		setSamples[k] = ks
	}
	cov["distinct_observed"] = setCounts
	cov["distinct_observed_examples"] = setSamples
	ev := map[string]any{
		"property_id": propID,
		"tier":        tier,
		"seed":        seed,
		"level":       p.Level,
		"coverage":    cov,
		"assumptions": p.Assumptions,
		"wall_s":      time.Since(t0).Seconds(),
		"violations":  newViol,
	}
	if replay == "" && os.Getenv("VERIF_NOEVIDENCE") == "" {
		os.MkdirAll(filepath.Join(Root(), "evidence"), 0o755)
		if err := WriteJSON(filepath.Join(Root(), "evidence", propID+".json"), ev); err != nil {
			fmt.Fprintln(os.Stderr, "cannot write evidence:", err)
			return 3
		}
	}
	os.Stdout.Write(out.Bytes())
	fmt.Printf("%s tier=%s seed=%d: %d cases, %d evaluated, %d distinct non-trivial, %d race-build runs, %d new violations, %d known-finding matches, %d inconclusive, %.1fs\n",
		propID, tier, seed, len(cases), evaluations, distinct, raceRuns, newViol, len(knownHit), len(inconclusive), time.Since(t0).Seconds())
	for _, k := range SortedKeys(counters) {
		fmt.Printf("  %s=%d", k, counters[k])
	}
	for _, k := range SortedKeys(setCounts) {
		fmt.Printf("  #%s=%d", k, setCounts[k])
	}
	fmt.Println()
	if newViol > 0 {
		return 1
	}
	if len(inconclusive) > 0 {
		for _, s := range inconclusive {
			fmt.Println("INCONCLUSIVE:", firstLines(s, 30))
		}
		return 2
	}
	if replay == "" {
		if fl, ok := p.Floor[tier]; ok && distinct < fl {
			fmt.Printf("INCONCLUSIVE: only %d distinct non-trivial cases observed, floor is %d\n", distinct, fl)
			return 2
		}
	}
	return 0
}

func firstLines(s string, n int) string {
	ls := strings.Split(s, "\n")
	if len(ls) > n {
		ls = append(ls[:n], "…")
	}
	return strings.Join(ls, "\n")
}
