package prop

import (
	"bytes"
	"fmt"
	"math/rand"
	"net/url"
	"strings"
	"time"

	"github.com/biogo/hts/sam"

	"verif/core"
)

func init() {
	core.Register(&core.Prop{
		ID:    "C07",
		Level: "exploration",
		Rule: "round-trip cases: headers built through the public API (Version/SO/GO/extra @HD tags with a Version whenever any @HD field is set; 0..6 references with optional AS/M5/SP/UR (schemes http, ftp, file) and non-standard tags; 0..4 read groups with every optional field present or absent, dates on whole seconds in several zones, insert size 0 = absent; 0..4 programs; comments). T=MarshalText(h), B=MarshalBinary(h); each parsed into a fresh header h'; MarshalText(h')==T, MarshalBinary(h')==B and Refs/RGs/Progs expose equal values (every tag through Tags, Time().Equal). " +
			"history cases: random histories of 30 operations over {AddReference (new, equal clone, same name with different optional tags, foreign), RemoveReference, SetName (free/taken/own), AddReadGroup, RemoveReadGroup (own/foreign), AddProgram, RemoveProgram, Clone, MergeHeaders (equal/disjoint/overlapping reference lists, common reference with different optional tags, UR present), UnmarshalText of additional lines (incl. @SQ for an existing bare name), NewHeader(text, refs)}; after EVERY operation every live header is walked: ID()==index, names pairwise distinct, and for merges every links[i][j] is the merged header's own reference at its ID with the name and length of source reference j. A panic is a violation; returned errors are not judged. " +
			"Non-trivial: a header with >= 2 references and >= 1 read group or program / a history with >= 1 merge or removal.",
		Floor:       map[string]int{"quick": 300, "thorough": 6000},
		Plan:        c07Plan,
		Run:         c07Run,
		Assumptions: []string{"reference URIs use the schemes http, ftp and file (the text parser rewrites any other scheme to file:, which cannot round-trip textually)", "read-group dates carry no fractional seconds (the text form has one-second resolution)"},
		TimeoutS:    map[string]int{"quick": 900, "thorough": 3400},
	})
}

func c07Plan(seed int64, tier string) []core.Case {
	nh, nhist := 500, 1000
	if tier == "thorough" {
		nh, nhist = 10000, 20000
	}
	var cs []core.Case
	for i := 0; i < nh; i += 25 {
		cs = append(cs, core.Case{Kind: "roundtrip", Seed: core.SubSeed(seed, "c07h", i), P: map[string]int64{"n": 25}})
	}
	for i := 0; i < nhist; i += 25 {
		cs = append(cs, core.Case{Kind: "history", Seed: core.SubSeed(seed, "c07e", i), P: map[string]int64{"n": 25}})
	}
	return cs
}

func tagVal(rng *rand.Rand) string {
	const chars = "abcdefghijklmnopqrstuvwxyzABCDEFGHIJKLMNOPQRSTUVWXYZ0123456789 .,;=_-/%%\\\"#"
	n := 1 + rng.Intn(12)
	b := make([]byte, n)
	for i := range b {
		b[i] = chars[rng.Intn(len(chars))]
	}
	return string(b)
}

func otherTag(rng *rand.Rand, k int) sam.Tag {
	// lower-case tags are reserved for users and cannot collide with standard ones
	return sam.Tag{"xyz"[k%3], "abcdefghi"[rng.Intn(9)]}
}

var c07Zones = []*time.Location{time.UTC, time.FixedZone("", 3600), time.FixedZone("", -8*3600), time.FixedZone("", 5*3600+1800), time.FixedZone("", -3*3600-1800)}

func c07Ref(rng *rand.Rand, name string, rich bool) *sam.Reference {
	var md5 []byte
	var uri *url.URL
	as, sp := "", ""
	if rich {
		if rng.Intn(3) == 0 {
			md5 = make([]byte, 16)
			rng.Read(md5)
		}
		if rng.Intn(3) == 0 {
			as = "asm" + tagVal(rng)
		}
		if rng.Intn(3) == 0 {
			sp = "Homo sapiens " + tagVal(rng)
		}
		if rng.Intn(3) == 0 {
			u := []string{"http://example.org/ref/" + name + ".fa", "ftp://ftp.example.org/pub/" + name, "file:///data/refs/" + name + ".fa"}[rng.Intn(3)]
			uri, _ = url.Parse(u)
		}
	}
	ref, err := sam.NewReference(name, as, sp, 1+rng.Intn(1<<30), md5, uri)
	if err != nil {
		panic(err)
	}
	if rich {
		for k := rng.Intn(3); k > 0; k-- {
			ref.Set(otherTag(rng, k), tagVal(rng))
		}
	}
	return ref
}

func c07RG(rng *rand.Rand, name string) *sam.ReadGroup {
	opt := func(s string) string {
		if rng.Intn(2) == 0 {
			return ""
		}
		return s + tagVal(rng)
	}
	var date time.Time
	if rng.Intn(2) == 0 {
		date = time.Date(1990+rng.Intn(40), time.Month(1+rng.Intn(12)), 1+rng.Intn(28), rng.Intn(24), rng.Intn(60), rng.Intn(60), 0, c07Zones[rng.Intn(len(c07Zones))])
	}
	size := 0
	if rng.Intn(2) == 0 {
		size = 1 + rng.Intn(5000)
	}
	rg, err := sam.NewReadGroup(name, opt("cn"), opt("desc "), opt("lib"), opt("prog"), opt("ILLUMINA"), opt("unit"), opt("sample"), opt("TACG"), opt("TCAG"), date, size)
	if err != nil {
		panic(err)
	}
	for k := rng.Intn(3); k > 0; k-- {
		rg.Set(otherTag(rng, k), tagVal(rng))
	}
	return rg
}

func c07Prog(rng *rand.Rand, uid string) *sam.Program {
	opt := func(s string) string {
		if rng.Intn(2) == 0 {
			return ""
		}
		return s + tagVal(rng)
	}
	p := sam.NewProgram(uid, opt("name"), opt("cmd -x "), opt("prev"), opt("1."))
	for k := rng.Intn(3); k > 0; k-- {
		p.Set(otherTag(rng, k), tagVal(rng))
	}
	return p
}

func c07Header(rng *rand.Rand) *sam.Header {
	h, _ := sam.NewHeader(nil, nil)
	if rng.Intn(4) != 0 {
		h.Version = []string{"1.0", "1.4", "1.6"}[rng.Intn(3)]
		h.SortOrder = sam.SortOrder(rng.Intn(4))
		h.GroupOrder = sam.GroupOrder(rng.Intn(4))
		for k := rng.Intn(3); k > 0; k-- {
			h.Set(otherTag(rng, k), tagVal(rng))
		}
	}
	for i, n := 0, rng.Intn(7); i < n; i++ {
		if err := h.AddReference(c07Ref(rng, fmt.Sprintf("chr%d%s", i, []string{"", "_alt", ".1"}[rng.Intn(3)]), true)); err != nil {
			panic(err)
		}
	}
	for i, n := 0, rng.Intn(5); i < n; i++ {
		if err := h.AddReadGroup(c07RG(rng, fmt.Sprintf("rg%d", i))); err != nil {
			panic(err)
		}
	}
	for i, n := 0, rng.Intn(5); i < n; i++ {
		if err := h.AddProgram(c07Prog(rng, fmt.Sprintf("pg%d", i))); err != nil {
			panic(err)
		}
	}
	for k := rng.Intn(3); k > 0; k-- {
		co := "comment " + tagVal(rng)
		if rng.Intn(4) == 0 {
			co += "\twith a tab\t" + tagVal(rng) // a comment is the rest of the line
		}
		h.Comments = append(h.Comments, co)
	}
	return h
}

type tagged interface {
	Tags(func(sam.Tag, string))
}

func tagDump(t tagged) string {
	var b strings.Builder
	t.Tags(func(tg sam.Tag, v string) { fmt.Fprintf(&b, "%s=%q;", tg, v) })
	return b.String()
}

// exposedEqual compares what two headers expose.
func exposedEqual(a, b *sam.Header) string {
	if a.Version != b.Version || a.SortOrder != b.SortOrder || tagDump(a) != tagDump(b) {
		return fmt.Sprintf("@HD differs: %s vs %s", tagDump(a), tagDump(b))
	}
	if len(a.Refs()) != len(b.Refs()) || len(a.RGs()) != len(b.RGs()) || len(a.Progs()) != len(b.Progs()) {
		return fmt.Sprintf("counts differ: refs %d/%d rgs %d/%d progs %d/%d", len(a.Refs()), len(b.Refs()), len(a.RGs()), len(b.RGs()), len(a.Progs()), len(b.Progs()))
	}
	for i := range a.Refs() {
		x, y := a.Refs()[i], b.Refs()[i]
		if x.Name() != y.Name() || x.Len() != y.Len() || x.ID() != y.ID() || tagDump(x) != tagDump(y) {
			return fmt.Sprintf("reference %d differs: %s (id %d) vs %s (id %d)", i, tagDump(x), x.ID(), tagDump(y), y.ID())
		}
	}
	for i := range a.RGs() {
		x, y := a.RGs()[i], b.RGs()[i]
		if x.Name() != y.Name() || x.ID() != y.ID() || !x.Time().Equal(y.Time()) || tagDump(x) != tagDump(y) {
			return fmt.Sprintf("read group %d differs: %s vs %s", i, tagDump(x), tagDump(y))
		}
	}
	for i := range a.Progs() {
		x, y := a.Progs()[i], b.Progs()[i]
		if x.UID() != y.UID() || x.ID() != y.ID() || tagDump(x) != tagDump(y) {
			return fmt.Sprintf("program %d differs: %s vs %s", i, tagDump(x), tagDump(y))
		}
	}
	if strings.Join(a.Comments, "\n") != strings.Join(b.Comments, "\n") {
		return "comments differ"
	}
	return ""
}

func c07RoundTrip(r *core.Result, rng *rand.Rand) bool {
	h := c07Header(rng)
	desc := func() string { t, _ := h.MarshalText(); return string(t) }
	var T, B []byte
	pv, st := core.Recover(func() {
		T, _ = h.MarshalText()
		B, _ = h.MarshalBinary()
	})
	if pv != nil {
		r.Violate("panic|marshal|"+core.TopLibFrame(st), "marshalling panicked: %v", pv)
		return false
	}
	for _, form := range []string{"text", "binary"} {
		h2, _ := sam.NewHeader(nil, nil)
		var err error
		pv, st := core.Recover(func() {
			if form == "text" {
				err = h2.UnmarshalText(T)
			} else {
				err = h2.UnmarshalBinary(B)
			}
		})
		if pv != nil {
			r.Violate("panic|unmarshal-"+form+"|"+core.TopLibFrame(st), "parsing the library's own %s form panicked: %v\n%s", form, pv, desc())
			return false
		}
		if err != nil {
			r.Violate("roundtrip|"+form+"-rejected", "parsing the library's own %s form failed: %v\n%s", form, err, desc())
			return false
		}
		T2, _ := h2.MarshalText()
		B2, _ := h2.MarshalBinary()
		if !bytes.Equal(T2, T) {
			r.Violate("roundtrip|"+form+"|text-differs", "after a %s round trip MarshalText gives\n%s\noriginal\n%s", form, T2, T)
			return false
		}
		if !bytes.Equal(B2, B) {
			r.Violate("roundtrip|"+form+"|binary-differs", "after a %s round trip MarshalBinary differs (%d vs %d bytes)\n%s", form, len(B2), len(B), desc())
			return false
		}
		if d := exposedEqual(h, h2); d != "" {
			r.Violate("roundtrip|"+form+"|exposed-values", "after a %s round trip: %s\n%s", form, d, desc())
			return false
		}
		if d := c07Invariants(h2); d != "" {
			r.Violate("invariant|after-"+form+"-parse", "%s\n%s", d, desc())
			return false
		}
	}
	return len(h.Refs()) >= 2 && (len(h.RGs()) > 0 || len(h.Progs()) > 0)
}

// c07Invariants walks a header: ids equal indexes, names unique.
func c07Invariants(h *sam.Header) string {
	seen := map[string]bool{}
	for i, x := range h.Refs() {
		if x == nil {
			return fmt.Sprintf("Refs()[%d] is nil", i)
		}
		if x.ID() != i {
			return fmt.Sprintf("reference %q at index %d has ID %d", x.Name(), i, x.ID())
		}
		if seen[x.Name()] {
			return fmt.Sprintf("two references are named %q", x.Name())
		}
		seen[x.Name()] = true
	}
	// the header finds each of its references by name (a record line naming
	// it parses to that very reference), and nothing under a name it does
	// not list
	for _, x := range h.Refs() {
		var rec sam.Record
		line := []byte("q\t0\t" + x.Name() + "\t1\t0\t*\t*\t0\t0\t*\t*")
		if err := rec.UnmarshalSAM(h, line); err != nil {
			return fmt.Sprintf("a record on reference %q does not parse against the header: %v", x.Name(), err)
		}
		if rec.Ref != x {
			return fmt.Sprintf("a record on reference %q parses to another reference (%q, id %d)", x.Name(), rec.Ref.Name(), rec.Ref.ID())
		}
	}
	seen = map[string]bool{}
	for i, x := range h.RGs() {
		if x.ID() != i {
			return fmt.Sprintf("read group %q at index %d has ID %d", x.Name(), i, x.ID())
		}
		if seen[x.Name()] {
			return fmt.Sprintf("two read groups are named %q", x.Name())
		}
		seen[x.Name()] = true
	}
	seen = map[string]bool{}
	for i, x := range h.Progs() {
		if x.ID() != i {
			return fmt.Sprintf("program %q at index %d has ID %d", x.UID(), i, x.ID())
		}
		if seen[x.UID()] {
			return fmt.Sprintf("two programs have UID %q", x.UID())
		}
		seen[x.UID()] = true
	}
	return ""
}

func c07History(r *core.Result, rng *rand.Rand) bool {
	var live []*sam.Header
	live = append(live, c07Header(rng))
	var hist []string
	interesting := false
	// stale: references that used to be in a header and were removed or
	// replaced; callers may still hold them and use them.
	var stale []*sam.Reference
	var removedRGs []*sam.ReadGroup
	// merges: the links MergeHeaders returned, with a snapshot taken then;
	// later edits of any header must not change what the caller was given.
	type mergeRec struct {
		links [][]*sam.Reference
		snap  [][]*sam.Reference
		op    string
	}
	var merges []mergeRec
	refsOf := func() map[*sam.Reference]bool {
		m := map[*sam.Reference]bool{}
		for _, h := range live {
			for _, x := range h.Refs() {
				m[x] = true
			}
		}
		return m
	}
	names := []string{"chr0", "chr1", "chr2", "chrX", "chrM", "alt1"}
	check := func() bool {
		for k, h := range live {
			var d string
			pv, st := core.Recover(func() { d = c07Invariants(h) })
			if pv != nil {
				r.Violate("panic|walk|"+core.TopLibFrame(st), "walking header %d panicked: %v\nhistory: %v", k, pv, hist)
				return false
			}
			if d == "" {
				// whatever the history, the header parses back from its own text
				T, err := h.MarshalText()
				if err == nil {
					h2, _ := sam.NewHeader(nil, nil)
					if err := h2.UnmarshalText(T); err != nil {
						d = fmt.Sprintf("the header's own text does not parse: %v\n%s", err, T)
					} else if T2, _ := h2.MarshalText(); !bytes.Equal(T, T2) {
						d = fmt.Sprintf("the header's text changes in a round trip:\n%s\nbecomes\n%s", T, T2)
					}
				}
			}
			if d != "" {
				op := "?"
				if len(hist) > 0 {
					op = hist[len(hist)-1]
					if i := strings.IndexByte(op, '('); i > 0 {
						op = op[:i]
					}
				}
				r.Violate("invariant|after-"+op, "header %d: %s\nhistory: %v", k, d, hist)
				return false
			}
		}
		return true
	}
	for step := 0; step < 30; step++ {
		h := live[rng.Intn(len(live))]
		var opname string
		before := refsOf()
		pv, st := core.Recover(func() {
			switch x := rng.Intn(18); x {
			case 16: // ReadGroup.SetName: refused iff another group of the header has the name
				if gs := h.RGs(); len(gs) > 0 {
					g := gs[rng.Intn(len(gs))]
					n := fmt.Sprintf("rg%d", rng.Intn(4))
					taken := false
					for _, o := range gs {
						if o != g && o.Name() == n {
							taken = true
						}
					}
					old := g.Name()
					opname = fmt.Sprintf("ReadGroup.SetName(%s->%s)", old, n)
					var err error
					if rng.Intn(3) == 0 {
						opname = fmt.Sprintf("ReadGroup.Set(ID %s->%s)", old, n)
						err = g.Set(sam.NewTag("ID"), n)
					} else {
						err = g.SetName(n)
					}
					switch {
					case taken && err == nil && g.Name() == n:
						r.Violate("model|rg-setname|duplicate-accepted", "%s accepted although another read group has that name\nhistory: %v", opname, append(hist, opname))
					case taken && err == nil:
						r.Violate("model|rg-setname|silently-ignored", "%s returned nil but the name is still %q (another read group has the new name: an error is due)\nhistory: %v", opname, g.Name(), append(hist, opname))
					case !taken && err != nil:
						r.Violate("model|rg-setname|refused", "%s: %v, but no other read group of the header has that name\nhistory: %v", opname, err, append(hist, opname))
					case !taken && g.Name() != n:
						r.Violate("model|rg-setname|not-applied", "%s returned nil but the name is %q\nhistory: %v", opname, g.Name(), append(hist, opname))
					}
					interesting = true
				}
			case 17: // Program.SetUID, same rule
				if ps := h.Progs(); len(ps) > 0 {
					g := ps[rng.Intn(len(ps))]
					n := fmt.Sprintf("pg%d", rng.Intn(4))
					taken := false
					for _, o := range ps {
						if o != g && o.UID() == n {
							taken = true
						}
					}
					old := g.UID()
					opname = fmt.Sprintf("Program.SetUID(%s->%s)", old, n)
					var err error
					if rng.Intn(3) == 0 {
						opname = fmt.Sprintf("Program.Set(ID %s->%s)", old, n)
						err = g.Set(sam.NewTag("ID"), n)
					} else {
						err = g.SetUID(n)
					}
					switch {
					case taken && err == nil && g.UID() == n:
						r.Violate("model|pg-setuid|duplicate-accepted", "%s accepted although another program has that uid\nhistory: %v", opname, append(hist, opname))
					case taken && err == nil:
						r.Violate("model|pg-setuid|silently-ignored", "%s returned nil but the uid is still %q (another program has the new uid: an error is due)\nhistory: %v", opname, g.UID(), append(hist, opname))
					case !taken && err != nil:
						r.Violate("model|pg-setuid|refused", "%s: %v, but no other program of the header has that uid\nhistory: %v", opname, err, append(hist, opname))
					case !taken && g.UID() != n:
						r.Violate("model|pg-setuid|not-applied", "%s returned nil but the uid is %q\nhistory: %v", opname, g.UID(), append(hist, opname))
					}
					interesting = true
				}
			case 0, 1: // AddReference: new / clone / same name other tags / foreign
				name := names[rng.Intn(len(names))]
				switch rng.Intn(4) {
				case 0:
					opname = fmt.Sprintf("AddReference(new %s)", name)
					h.AddReference(c07Ref(rng, name, rng.Intn(2) == 0))
				case 1:
					if len(h.Refs()) > 0 {
						src := h.Refs()[rng.Intn(len(h.Refs()))]
						opname = fmt.Sprintf("AddReference(clone of %s)", src.Name())
						h.AddReference(src.Clone())
					}
				case 2:
					if len(h.Refs()) > 0 {
						src := h.Refs()[rng.Intn(len(h.Refs()))]
						c := src.Clone()
						c.Set(sam.NewTag("AS"), "other"+tagVal(rng))
						if rng.Intn(2) == 0 {
							c.Set(sam.NewTag("UR"), "http://example.org/"+src.Name())
						}
						opname = fmt.Sprintf("AddReference(%s with other tags)", src.Name())
						h.AddReference(c)
					}
				default:
					o := live[rng.Intn(len(live))]
					if len(o.Refs()) > 0 {
						f := o.Refs()[rng.Intn(len(o.Refs()))]
						opname = fmt.Sprintf("AddReference(foreign %s)", f.Name())
						h.AddReference(f)
					}
				}
			case 2:
				if len(h.Refs()) > 0 {
					x := h.Refs()[rng.Intn(len(h.Refs()))]
					opname = fmt.Sprintf("RemoveReference(%s)", x.Name())
					h.RemoveReference(x)
					interesting = true
				}
			case 3:
				if len(h.Refs()) > 0 {
					x := h.Refs()[rng.Intn(len(h.Refs()))]
					n := names[rng.Intn(len(names))]
					if rng.Intn(3) == 0 {
						n = x.Name()
					}
					if rng.Intn(3) == 0 {
						// the same rename through the tag interface
						opname = fmt.Sprintf("Set(SN %s->%s)", x.Name(), n)
						x.Set(sam.NewTag("SN"), n)
					} else {
						opname = fmt.Sprintf("SetName(%s->%s)", x.Name(), n)
						x.SetName(n)
					}
				}
			case 4:
				n := fmt.Sprintf("rg%d", rng.Intn(4))
				opname = "AddReadGroup(" + n + ")"
				if len(removedRGs) > 0 && rng.Intn(3) == 0 {
					// a group removed earlier is, by RemoveReadGroup's
					// documentation, available to add to another header
					g := removedRGs[len(removedRGs)-1]
					removedRGs = removedRGs[:len(removedRGs)-1]
					taken := false
					for _, o := range h.RGs() {
						if o.Name() == g.Name() {
							taken = true
						}
					}
					opname = "AddReadGroup(removed " + g.Name() + ")"
					if err := h.AddReadGroup(g); (err == nil) == taken {
						r.Violate("model|add-removed-readgroup", "%s: err=%v, a group of that name present=%v\nhistory: %v", opname, err, taken, append(hist, opname))
					}
				} else {
					h.AddReadGroup(c07RG(rng, n))
				}
			case 5:
				o := live[rng.Intn(len(live))]
				if len(o.RGs()) > 0 {
					x := o.RGs()[rng.Intn(len(o.RGs()))]
					opname = fmt.Sprintf("RemoveReadGroup(%s own=%v)", x.Name(), o == h)
					if h.RemoveReadGroup(x) == nil {
						removedRGs = append(removedRGs, x)
					}
					interesting = true
				}
			case 6:
				n := fmt.Sprintf("pg%d", rng.Intn(4))
				opname = "AddProgram(" + n + ")"
				h.AddProgram(c07Prog(rng, n))
			case 7:
				o := live[rng.Intn(len(live))]
				if len(o.Progs()) > 0 {
					x := o.Progs()[rng.Intn(len(o.Progs()))]
					opname = fmt.Sprintf("RemoveProgram(%s own=%v)", x.UID(), o == h)
					h.RemoveProgram(x)
					interesting = true
				}
			case 8:
				opname = "Clone"
				cl := h.Clone()
				// a clone is a deep copy: editing it leaves the original alone
				T0, _ := h.MarshalText()
				tg := sam.NewTag("x" + string("abcdefghi"[rng.Intn(9)]))
				for _, x := range cl.Refs() {
					x.Set(tg, "edited-in-clone")
				}
				for _, x := range cl.RGs() {
					x.Set(tg, "edited-in-clone")
				}
				for _, x := range cl.Progs() {
					x.Set(tg, "edited-in-clone")
				}
				if T1, _ := h.MarshalText(); !bytes.Equal(T0, T1) {
					r.Violate("clone|not-independent", "setting tag %s on the elements of a clone changed the original header:\n%s\nbecame\n%s\nhistory: %v", tg, T0, T1, append(hist, opname))
				}
				if len(live) < 6 {
					live = append(live, cl)
				}
			case 9, 10: // MergeHeaders
				var src []*sam.Header
				n := 2 + rng.Intn(2)
				for i := 0; i < n; i++ {
					switch rng.Intn(3) {
					case 0:
						src = append(src, live[rng.Intn(len(live))])
					case 1:
						src = append(src, live[rng.Intn(len(live))].Clone())
					default:
						src = append(src, c07Header(rng))
					}
				}
				opname = fmt.Sprintf("MergeHeaders(%d)", n)
				m, links, err := sam.MergeHeaders(src)
				interesting = true
				if err == nil && m != nil && links != nil {
					mr := mergeRec{links: links, op: opname}
					for _, l := range links {
						mr.snap = append(mr.snap, append([]*sam.Reference(nil), l...))
					}
					merges = append(merges, mr)
				}
				if err == nil && m != nil {
					if len(live) < 6 {
						live = append(live, m)
					}
					if d := c07Invariants(m); d != "" {
						r.Violate("invariant|merged-header", "MergeHeaders result: %s\nhistory: %v", d, append(hist, opname))
						return
					}
					for i, l := range links {
						if len(l) != len(src[i].Refs()) {
							r.Violate("merge|links-length", "links[%d] has %d entries, source has %d references", i, len(l), len(src[i].Refs()))
							return
						}
						for j, lr := range l {
							sr := src[i].Refs()[j]
							if lr == nil {
								r.Violate("merge|link-nil", "links[%d][%d] is nil (source reference %s)", i, j, sr.Name())
								return
							}
							id := lr.ID()
							if id < 0 || id >= len(m.Refs()) || m.Refs()[id] != lr {
								r.Violate("merge|link-not-owned", "links[%d][%d] (%s, id %d) is not a reference of the merged header at its own id\nhistory: %v", i, j, lr.Name(), id, append(hist, opname))
								return
							}
							if lr.Name() != sr.Name() || lr.Len() != sr.Len() {
								r.Violate("merge|link-mismatch", "links[%d][%d] is %s/%d, source reference is %s/%d", i, j, lr.Name(), lr.Len(), sr.Name(), sr.Len())
								return
							}
						}
					}
				}
			case 11, 12: // UnmarshalText of additional lines
				var lines []string
				for k := 1 + rng.Intn(2); k > 0; k-- {
					switch rng.Intn(4) {
					case 0:
						n := names[rng.Intn(len(names))]
						ln := 1 + rng.Intn(1000)
						if i := rng.Intn(len(h.Refs()) + 1); i < len(h.Refs()) && rng.Intn(2) == 0 {
							n, ln = h.Refs()[i].Name(), h.Refs()[i].Len()
						}
						l := fmt.Sprintf("@SQ\tSN:%s\tLN:%d", n, ln)
						if rng.Intn(6) == 0 {
							l = "@SQ\tSN:" + n // malformed: no length; to be refused, not half-applied
						}
						if rng.Intn(2) == 0 {
							l += "\tAS:asm" + tagVal(rng)
						}
						lines = append(lines, l)
					case 1:
						lines = append(lines, fmt.Sprintf("@RG\tID:rg%d\tSM:s%d", rng.Intn(5), rng.Intn(3)))
					case 2:
						lines = append(lines, fmt.Sprintf("@PG\tID:pg%d\tPN:tool", rng.Intn(5)))
					default:
						lines = append(lines, "@CO\tadded "+tagVal(rng))
					}
				}
				opname = fmt.Sprintf("UnmarshalText(%q)", lines)
				h.UnmarshalText([]byte(strings.Join(lines, "\n") + "\n"))
			case 13: // NewHeader(text, refs)
				var refs []*sam.Reference
				for i, n := 0, rng.Intn(3); i < n; i++ {
					refs = append(refs, c07Ref(rng, names[i], false))
				}
				text := ""
				if rng.Intn(2) == 0 {
					text = fmt.Sprintf("@HD\tVN:1.6\n@SQ\tSN:%s\tLN:%d\n", names[rng.Intn(len(names))], 1+rng.Intn(1000))
				}
				opname = fmt.Sprintf("NewHeader(%q, %d refs)", text, len(refs))
				var tb []byte
				if text != "" {
					tb = []byte(text)
				}
				nh, err := sam.NewHeader(tb, refs)
				if err == nil && nh != nil && len(live) < 6 {
					live = append(live, nh)
				}
			case 14:
				// use a reference that was removed or replaced earlier
				if len(stale) > 0 {
					x := stale[rng.Intn(len(stale))]
					if rng.Intn(2) == 0 {
						n := names[rng.Intn(len(names))]
						opname = fmt.Sprintf("SetName(stale %s->%s)", x.Name(), n)
						x.SetName(n)
					} else {
						opname = fmt.Sprintf("AddReference(stale %s)", x.Name())
						h.AddReference(x)
					}
				}
			default:
				opname = "MarshalText"
				h.MarshalText()
			}
		})
		if opname == "" {
			continue
		}
		hist = append(hist, opname)
		if pv != nil {
			op := opname
			if i := strings.IndexByte(op, '('); i > 0 {
				op = op[:i]
			}
			r.Violate("panic|"+op+"|"+core.TopLibFrame(st), "%s panicked: %v\nhistory: %v", opname, pv, hist)
			return false
		}
		if len(r.Viol) > 0 || !check() {
			return false
		}
		// references that dropped out of every header are stale from now on
		after := refsOf()
		for x := range before {
			if !after[x] && len(stale) < 12 {
				stale = append(stale, x)
			}
		}
		// what MergeHeaders handed out must not change under later edits
		for _, mr := range merges {
			for i := range mr.links {
				for j := range mr.links[i] {
					if j >= len(mr.snap[i]) || mr.links[i][j] != mr.snap[i][j] {
						op := opname
						if k := strings.IndexByte(op, '('); k > 0 {
							op = op[:k]
						}
						r.Violate("merge|links-changed-later|"+op, "the links returned by %s changed after %s: links[%d][%d] was %s and is now %s\nhistory: %v", mr.op, opname, i, j, mr.snap[i][j].Name(), mr.links[i][j].Name(), hist)
						return false
					}
				}
			}
		}
	}
	return interesting
}

func c07Run(c core.Case) *core.Result {
	r := core.NewResult()
	rng := c.Rng()
	n := c.Int("n")
	var nt int64
	for i := 0; i < n && len(r.Viol) < 4; i++ {
		ok := false
		if c.Kind == "roundtrip" {
			ok = c07RoundTrip(r, rng)
		} else {
			ok = c07History(r, rng)
		}
		if ok {
			nt++
		}
	}
	r.Evals, r.DistinctNT = int64(n), nt
	r.FP = core.Hash(c.Kind, c.Seed)
	r.Nontrivial = true
	r.Count(c.Kind+"_cases", int64(n))
	t, _ := c07Header(rand.New(rand.NewSource(c.Seed))).MarshalText()
	r.Sample = map[string]any{"kind": c.Kind, "example_header": string(t)}
	return r
}
