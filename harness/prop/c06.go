package prop

import (
	"bytes"
	"fmt"
	"io"
	"math"
	"strings"

	"github.com/biogo/hts/bam"
	"github.com/biogo/hts/sam"

	"verif/core"
	"verif/gen"
	"verif/oracle"
)

func init() {
	core.Register(&core.Prop{
		ID:    "C06",
		Level: "exploration",
		Rule: "record cases: records from the C05 generator restricted to what SAM text expresses (CIGAR consistent with the sequence length or sequence absent, printable names, qualities 0..93 or absent, no NaN; boundary integers, +-Inf, empty and non-empty Z/H/B included). For each record and both parseable flag formats: L = MarshalSAM(R); R' = UnmarshalSAM(header, L) must succeed; MarshalSAM(R') == L; fields of R' equal R (integer aux compared by value since the parser narrows the type; absent qualities = all 0xff); L equals the line of an independent formatter written from SAMv1 1.4/1.5 (finite floats; hex digits compared case-insensitively); the record written to BAM and read back formats to the same L. " +
			"reader cases: text of k lines with LF or CRLF, with/without final newline, with/without header, read by sam.Reader: exactly k records (re-formatted lines equal) then io.EOF. " +
			"Non-trivial: the record has >= 1 aux field besides the provenance tag and a non-empty CIGAR; distinct = distinct lines.",
		Floor:       map[string]int{"quick": 1500, "thorough": 40000},
		Plan:        c06Plan,
		Run:         c06Run,
		Assumptions: []string{"FlagString output is not parsed back (the property names decimal and hexadecimal)", "lower-case bases and NaN are not generated (they cannot round-trip by design)"},
		TimeoutS:    map[string]int{"quick": 900, "thorough": 3400},
	})
}

func c06Plan(seed int64, tier string) []core.Case {
	nr, nd := 30, 300
	per := int64(120)
	if tier == "thorough" {
		nr, nd, per = 400, 5000, 250
	}
	var cs []core.Case
	for i := 0; i < nr; i++ {
		cs = append(cs, core.Case{Kind: "records", Seed: core.SubSeed(seed, "c06r", i), P: map[string]int64{"n": per}})
	}
	for i := 0; i < nd; i++ {
		cs = append(cs, core.Case{Kind: "reader", Seed: core.SubSeed(seed, "c06d", i)})
	}
	return cs
}

func refNamer(refs []oracle.RefSpec) func(int32) string {
	return func(id int32) string {
		if id < 0 || int(id) >= len(refs) {
			return "*"
		}
		return refs[id].Name
	}
}

func eqFoldHex(a, b string) bool {
	// lines are equal up to the case of hexadecimal digits in H fields
	if a == b {
		return true
	}
	fa, fb := strings.Split(a, "\t"), strings.Split(b, "\t")
	if len(fa) != len(fb) {
		return false
	}
	for i := range fa {
		if fa[i] == fb[i] {
			continue
		}
		if i >= 11 && len(fa[i]) > 5 && fa[i][2:5] == ":H:" && strings.EqualFold(fa[i], fb[i]) {
			continue
		}
		return false
	}
	return true
}

func finiteFloats(r oracle.Rec) bool {
	for _, a := range r.Aux {
		if a.Type == 'f' && (math.IsInf(float64(a.F), 0)) {
			return false
		}
		for _, f := range a.Flts {
			if math.IsInf(float64(f), 0) {
				return false
			}
		}
	}
	return true
}

// sameParsed compares the record parsed from text with the format-level
// record, allowing integer aux types to narrow.
func sameParsed(got *sam.Record, want oracle.Rec, h *sam.Header) (string, string) {
	stripped := want
	stripped.Aux = nil
	g2 := *got
	g2.AuxFields = nil
	if cls, d := compareRecord(&g2, stripped, h, omitNone); cls != "" {
		return cls, d
	}
	if len(got.AuxFields) != len(want.Aux) {
		return "aux-count", fmt.Sprintf("%d aux fields parsed, %d formatted", len(got.AuxFields), len(want.Aux))
	}
	for i, a := range want.Aux {
		ga := got.AuxFields[i]
		if ga.Tag() != (sam.Tag{a.Tag[0], a.Tag[1]}) {
			return "aux-tag", fmt.Sprintf("aux %d has tag %v, formatted %s", i, ga.Tag(), string(a.Tag[:]))
		}
		switch a.Type {
		case 'c', 'C', 's', 'S', 'i', 'I':
			k, v, ok := auxNumeric(ga)
			if !ok || k != 'i' || v != float64(a.Int) {
				return "aux-int", fmt.Sprintf("aux %s: parsed %v, formatted %d", string(a.Tag[:]), ga, a.Int)
			}
		case 'f':
			v, ok := ga.Value().(float32)
			if !ok || v != a.F {
				return "aux-float", fmt.Sprintf("aux %s: parsed %v, formatted %v", string(a.Tag[:]), ga, a.F)
			}
		default:
			if wb := auxBytes(a); !bytes.Equal([]byte(ga), wb) {
				return "aux-bytes|" + string(rune(a.Type)), fmt.Sprintf("aux %s (type %c): parsed % x, formatted % x", string(a.Tag[:]), a.Type, trunc([]byte(ga), 40), trunc(wb, 40))
			}
		}
	}
	return "", ""
}

func c06Run(c core.Case) *core.Result {
	r := core.NewResult()
	rng := c.Rng()
	nref := 1 + rng.Intn(4)
	refs := gen.RandRefs(rng, nref)
	h := mkHeader(rng, refs, false)
	name := refNamer(refs)
	if c.Kind == "reader" {
		c06Reader(r, c, refs, h)
		return r
	}
	n := c.Int("n")
	var nt int64
	seen := map[string]bool{}
	var recs []oracle.Rec
	var reused sam.Record
	for i := 0; i < n && len(r.Viol) < 6; i++ {
		rec := gen.RandRec(rng, gen.RecOpts{NRefs: nref, SAMSafe: true, NoBigCig: rng.Intn(30) != 0, MaxSeq: 200}, i)
		if rng.Intn(12) == 0 {
			gen.PadTo(&rec, []int{4095, 4096, 4097}[rng.Intn(3)])
		} else if rng.Intn(4) == 0 {
			rec.Aux = nil // a line of exactly eleven fields (the generator always adds a provenance tag)
		}
		recs = append(recs, rec)
		lr, err := toRecord(rec, h)
		if err != nil {
			r.Violate("harness|toRecord", "%v", err)
			return r
		}
		for ff := 0; ff < 2; ff++ {
			var L []byte
			pv, st := core.Recover(func() { L, err = lr.MarshalSAM(ff) })
			if pv != nil {
				r.Violate("panic|MarshalSAM|"+core.TopLibFrame(st), "MarshalSAM panicked: %v", pv)
				break
			}
			if err != nil {
				r.Violate("marshal|error", "MarshalSAM(%d): %v for %s", ff, err, oracle.FormatSAM(trimRec(rec), name, ff))
				break
			}
			line := string(L)
			if finiteFloats(rec) {
				if want := oracle.FormatSAM(rec, name, ff); !eqFoldHex(line, want) {
					r.Violate("format|differs-from-spec", "MarshalSAM gives\n%.600s\nthe independent formatter\n%.600s", line, want)
					break
				}
			}
			var fresh sam.Record
			back := &fresh
			if i%2 == 1 {
				back = &reused // parse into the record that parsed the previous lines
			}
			pv, st = core.Recover(func() { err = back.UnmarshalSAM(h, L) })
			if pv != nil {
				r.Violate("panic|UnmarshalSAM|"+core.TopLibFrame(st), "UnmarshalSAM panicked on its own output %.300q: %v", line, pv)
				break
			}
			if err != nil {
				cls := "other"
				for _, a := range rec.Aux {
					if (a.Type == 'Z' || a.Type == 'H') && len(a.Data) == 0 {
						cls = "empty-Z-or-H"
					}
					if a.Type == 'B' && len(a.Ints) == 0 && len(a.Flts) == 0 {
						cls = "empty-B"
					}
				}
				r.Violate("parse|rejects-own-output|"+cls, "UnmarshalSAM rejects the line MarshalSAM produced: %v\n%.600s", err, line)
				break
			}
			L2, err := back.MarshalSAM(ff)
			if err != nil || string(L2) != line {
				r.Violate("roundtrip|line-changed", "format→parse→format changed the line (err %v):\n%.600s\n%.600s", err, line, L2)
				break
			}
			if cls, d := sameParsed(back, rec, h); cls != "" {
				r.Violate("roundtrip|"+cls, "parsed record differs: %s\nline: %.600s", d, line)
				break
			}
			// the same line without a header: references are then known by
			// name only and belong to no header
			var bare sam.Record
			if err := bare.UnmarshalSAM(nil, L); err != nil {
				r.Violate("parse|headerless-rejects", "UnmarshalSAM(nil, line): %v\n%.600s", err, line)
				break
			}
			if L3, err := bare.MarshalSAM(ff); err != nil || string(L3) != line {
				r.Violate("roundtrip|headerless-line-changed", "format→parse without header→format changed the line (err %v):\n%.600s\n%.600s", err, line, L3)
				break
			}
			if !seen[line] {
				seen[line] = true
				if len(rec.Aux) > 1 && len(rec.Cigar) > 0 {
					nt++
				}
			}
		}
	}
	// (3) BAM view agrees with the SAM view
	if len(r.Viol) == 0 {
		var buf bytes.Buffer
		bw, err := bam.NewWriter(&buf, h, 1)
		if err == nil {
			for _, rec := range recs {
				lr, _ := toRecord(rec, h)
				if err = bw.Write(lr); err != nil {
					break
				}
			}
			if err == nil {
				err = bw.Close()
			}
		}
		if err != nil {
			r.Violate("bam|write", "writing the records to BAM: %v", err)
			return r
		}
		br, err := bam.NewReader(wrapSource(buf.Bytes(), rng.Intn(4), rng), 1)
		if err != nil {
			r.Violate("bam|read", "bam.NewReader: %v", err)
			return r
		}
		var kept []*sam.Record
		for i := range recs {
			got, err := br.Read()
			if err != nil {
				r.Violate("bam|read", "record %d: %v", i, err)
				break
			}
			kept = append(kept, got)
		}
		for i, got := range kept {
			rec := recs[i]
			lr, _ := toRecord(rec, h)
			a, e1 := lr.MarshalSAM(0)
			b, e2 := got.MarshalSAM(0)
			if e1 != nil || e2 != nil || string(a) != string(b) {
				r.Violate("bam-vs-sam|line-differs", "record %d formats to\n%.500s\nbut after a BAM round trip to\n%.500s (%v %v)", i, a, b, e1, e2)
				break
			}
			r.Count("bam_views_compared", 1)
		}
		br.Close()
	}
	r.Evals, r.DistinctNT = int64(2*n), nt
	r.FP = core.Hash(c.Seed)
	r.Nontrivial = true
	r.Count("records_formatted_and_parsed", int64(2*n))
	if len(recs) > 0 {
		r.Sample = oracle.FormatSAM(trimRec(recs[0]), name, 0)
	}
	return r
}

func c06Reader(r *core.Result, c core.Case, refs []oracle.RefSpec, h *sam.Header) {
	rng := c.Rng()
	name := refNamer(refs)
	k := rng.Intn(6)
	if rng.Intn(10) == 0 {
		k = 0
	}
	var lines []string
	for i := 0; i < k; i++ {
		maxSeq := 60
		if rng.Intn(4) == 0 {
			maxSeq = 9000 // lines longer than the reader's 4096 byte buffer
		}
		rec := gen.RandRec(rng, gen.RecOpts{NRefs: len(refs), SAMSafe: true, NoBigCig: true, MaxSeq: maxSeq}, i)
		// keep to what the parser accepts on this tree apart from the clause under test
		var aux []oracle.AuxF
		for _, a := range rec.Aux {
			if (a.Type == 'Z' || a.Type == 'H') && len(a.Data) == 0 {
				continue
			}
			if a.Type == 'B' && len(a.Ints) == 0 && len(a.Flts) == 0 {
				continue
			}
			aux = append(aux, a)
		}
		rec.Aux = aux
		lines = append(lines, oracle.FormatSAM(rec, name, rng.Intn(2)))
	}
	eol := []string{"\n", "\r\n"}[rng.Intn(2)]
	finalNL := rng.Intn(2) == 0
	withHeader := rng.Intn(2) == 0
	var text strings.Builder
	if withHeader {
		ht, _ := h.MarshalText()
		text.WriteString(strings.ReplaceAll(string(ht), "\n", eol))
	}
	for i, l := range lines {
		text.WriteString(l)
		if i < len(lines)-1 || finalNL {
			text.WriteString(eol)
		}
	}
	cfg := fmt.Sprintf("lines=%d eol=%q final-newline=%v header=%v", k, eol, finalNL, withHeader)
	r.FP = core.Hash(cfg, text.String())
	r.Nontrivial = k >= 1
	r.Sample = map[string]any{"config": cfg}
	r.Count("reader_inputs", 1)
	pv, st := core.Recover(func() {
		// plain, short reads, or the last bytes together with io.EOF
		var ssrc io.Reader = strings.NewReader(text.String())
		switch rng.Intn(4) {
		case 1:
			ssrc = wrapSource([]byte(text.String()), 2, rng)
		case 2:
			ssrc = &eagerEOF{b: []byte(text.String())}
		case 3:
			ssrc = &eagerEOF{b: []byte(text.String()), max: 1 + rng.Intn(5000)}
		}
		sr, err := sam.NewReader(ssrc)
		if err != nil {
			if text.Len() == 0 && err == io.EOF {
				return // empty input
			}
			if k == 0 && withHeader && !finalNL {
				// header only input without trailing newline never happens: MarshalText ends lines
			}
			r.Violate("reader|new", "%s: sam.NewReader: %v", cfg, err)
			return
		}
		for i := 0; ; i++ {
			rec, err := sr.Read()
			if err == io.EOF {
				if i != k {
					cls := "other"
					if i == k-1 && !finalNL {
						cls = "final-line-without-newline"
					}
					r.Violate("reader|lost-line|"+cls, "%s: io.EOF after %d of %d records", cfg, i, k)
				}
				return
			}
			if err != nil {
				r.Violate("reader|error", "%s: Read %d: %v", cfg, i, err)
				return
			}
			if i >= k {
				r.Violate("reader|extra", "%s: more than %d records", cfg, k)
				return
			}
			want := lines[i]
			// re-format with the flag format of the input line
			ff := 0
			if f := strings.Split(want, "\t"); len(f) > 1 && strings.HasPrefix(f[1], "0x") {
				ff = 1
			}
			got, err := rec.MarshalSAM(ff)
			if err != nil || !eqFoldHex(string(got), want) {
				r.Violate("reader|line-differs", "%s: record %d re-formats to\n%.500s\ninput line\n%.500s", cfg, i, got, want)
				return
			}
		}
	})
	if pv != nil {
		r.Violate("panic|sam.Reader|"+core.TopLibFrame(st), "%s: %v", cfg, pv)
	}
}
