package prop

import (
	"fmt"
	"math/rand"
	"sort"

	"github.com/biogo/hts/bgzf"
	"github.com/biogo/hts/bgzf/index"

	"verif/core"
)

func init() {
	core.Register(&core.Prop{
		ID:    "C17",
		Level: "exploration",
		Rule: "a case is one begin-sorted chunk list x every provided strategy (Identity, Adjacent, Squash, Compressor(n) for each threshold); the oracle is interval arithmetic on File<<16|Block written independently of the library. " +
			"Enumerated cases: every begin-sorted list of length <= L (quick 3, thorough 5) over the 21 chunks with Begin<=End on offsets {0,1,2}x{0,1}, thresholds {-2,-1,0,1,2} (complete enumeration of that space; includes empty, nested, touching, duplicate and zero-length chunks). Random cases: lists up to 200 chunks, files up to 2^47 (and lists straddling 2^40..2^47), thresholds {-1,0,1,65536,2^32,2^44,2^47,2^48-1,2^48,2^62}. " +
			"A list is non-trivial when it has >= 2 chunks of which two overlap, touch or nest; distinct = distinct lists.",
		Floor:       map[string]int{"quick": 3000, "thorough": 300000},
		Plan:        c17Plan,
		Run:         c17Run,
		Exhaustive:  true,
		ExhaustNote: "the small-alphabet list space is enumerated completely; the random lists are a sample",
		Assumptions: []string{"input lists are sorted by Begin and every chunk has Begin <= End, as the property states"},
		TimeoutS:    map[string]int{"quick": 600, "thorough": 3000},
	})
}

func c17Plan(seed int64, tier string) []core.Case {
	var cs []core.Case
	L := int64(3)
	nr, per := 16, int64(300)
	if tier == "thorough" {
		L = 5
		nr, per = 64, 3000
	}
	cs = append(cs, core.Case{Kind: "enum", P: map[string]int64{"first": -1, "L": L}}) // the empty list
	for f := int64(0); f < 21; f++ {
		cs = append(cs, core.Case{Kind: "enum", P: map[string]int64{"first": f, "L": L}})
	}
	for i := 0; i < nr; i++ {
		cs = append(cs, core.Case{Kind: "random", Seed: core.SubSeed(seed, "c17", i), P: map[string]int64{"n": per}})
	}
	return cs
}

func vo(o bgzf.Offset) int64 { return o.File<<16 | int64(o.Block) }

type ival struct{ b, e int64 }

func unionOf(cs []bgzf.Chunk) []ival {
	var iv []ival
	for _, c := range cs {
		if vo(c.Begin) < vo(c.End) {
			iv = append(iv, ival{vo(c.Begin), vo(c.End)})
		}
	}
	sort.Slice(iv, func(i, j int) bool { return iv[i].b < iv[j].b })
	var out []ival
	for _, x := range iv {
		if n := len(out); n > 0 && x.b <= out[n-1].e {
			if x.e > out[n-1].e {
				out[n-1].e = x.e
			}
			continue
		}
		out = append(out, x)
	}
	return out
}

func covers(u []ival, x ival) bool {
	for _, y := range u {
		if y.b <= x.b && x.e <= y.e {
			return true
		}
	}
	return false
}

func sameUnion(a, b []ival) bool {
	if len(a) != len(b) {
		return false
	}
	for i := range a {
		if a[i] != b[i] {
			return false
		}
	}
	return true
}

func chunkStr(cs []bgzf.Chunk) string {
	s := "["
	for i, c := range cs {
		if i > 0 {
			s += " "
		}
		s += fmt.Sprintf("%d:%d-%d:%d", c.Begin.File, c.Begin.Block, c.End.File, c.End.Block)
	}
	return s + "]"
}

func eqChunks(a, b []bgzf.Chunk) bool {
	if len(a) != len(b) {
		return false
	}
	for i := range a {
		if a[i] != b[i] {
			return false
		}
	}
	return true
}

type strat struct {
	name string
	near int64
	f    index.MergeStrategy
}

func c17Check(r *core.Result, in []bgzf.Chunk, strats []strat) {
	inU := unionOf(in)
	for _, s := range strats {
		arg := append([]bgzf.Chunk(nil), in...)
		var out []bgzf.Chunk
		pv, st := core.Recover(func() { out = s.f(arg) })
		if pv != nil {
			r.Violate("panic|"+s.name+"|"+core.TopLibFrame(st), "%s(%s) panicked: %v", s.name, chunkStr(in), pv)
			continue
		}
		out = append([]bgzf.Chunk(nil), out...)
		for i := 1; i < len(out); i++ {
			if vo(out[i-1].Begin) > vo(out[i].Begin) {
				r.Violate("unsorted|"+s.name, "%s(%s) = %s is not sorted by Begin", s.name, chunkStr(in), chunkStr(out))
				break
			}
		}
		outU := unionOf(out)
		for _, x := range inU {
			if !covers(outU, x) {
				r.Violate("coverage-lost|"+s.name, "%s(%s) = %s does not cover input positions [%d,%d)", s.name, chunkStr(in), chunkStr(out), x.b, x.e)
				break
			}
		}
		switch s.name {
		case "Identity":
			if !eqChunks(out, in) {
				r.Violate("identity-changed", "Identity(%s) = %s", chunkStr(in), chunkStr(out))
			}
		case "Adjacent":
			if !sameUnion(inU, outU) {
				r.Violate("adjacent-union", "Adjacent(%s) = %s covers %v, input covers %v", chunkStr(in), chunkStr(out), outU, inU)
			}
			for i := 1; i < len(out); i++ {
				if vo(out[i-1].End) >= vo(out[i].Begin) {
					r.Violate("adjacent-not-separated", "Adjacent(%s) = %s: neighbours %d,%d touch or overlap", chunkStr(in), chunkStr(out), i-1, i)
					break
				}
			}
		case "Squash":
			if len(in) == 0 {
				if len(out) != 0 {
					r.Violate("squash-empty", "Squash([]) = %s", chunkStr(out))
				}
				break
			}
			mb, me := in[0].Begin, in[0].End
			for _, c := range in {
				if vo(c.Begin) < vo(mb) {
					mb = c.Begin
				}
				if vo(c.End) > vo(me) {
					me = c.End
				}
			}
			if len(out) != 1 || out[0].Begin != mb || out[0].End != me {
				r.Violate("squash-not-enclosing", "Squash(%s) = %s, want the single chunk %d:%d-%d:%d", chunkStr(in), chunkStr(out), mb.File, mb.Block, me.File, me.Block)
			}
		case "Compressor":
			for i := 1; i < len(out); i++ {
				if out[i-1].End.File+s.near >= out[i].Begin.File {
					r.Violate("compressor-too-close", "Compressor(%d)(%s) = %s: neighbours %d,%d are closer than the threshold", s.near, chunkStr(in), chunkStr(out), i-1, i)
					break
				}
			}
		}
		// idempotence
		arg2 := append([]bgzf.Chunk(nil), out...)
		var out2 []bgzf.Chunk
		pv, st = core.Recover(func() { out2 = s.f(arg2) })
		if pv != nil {
			r.Violate("panic|"+s.name+"|"+core.TopLibFrame(st), "%s applied twice to %s panicked: %v", s.name, chunkStr(in), pv)
		} else if !eqChunks(out2, out) {
			r.Violate("not-idempotent|"+s.name, "%s(%s) = %s but applying it again gives %s", s.name, chunkStr(in), chunkStr(out), chunkStr(out2))
		}
		r.Count("strategy_applications", 1)
	}
}

func nontrivialList(in []bgzf.Chunk) bool {
	for i := 0; i < len(in); i++ {
		for j := i + 1; j < len(in); j++ {
			if vo(in[j].Begin) <= vo(in[i].End) {
				return true
			}
		}
	}
	return false
}

func mkStrats(nears []int64) []strat {
	s := []strat{{"Identity", 0, index.Identity}, {"Adjacent", 0, index.Adjacent}, {"Squash", 0, index.Squash}}
	for _, n := range nears {
		s = append(s, strat{"Compressor", n, index.CompressorStrategy(n)})
	}
	return s
}

func c17Run(c core.Case) *core.Result {
	r := core.NewResult()
	r.Nontrivial = true
	r.FP = core.Hash(c.Kind, c.Seed, c.P)
	switch c.Kind {
	case "enum":
		var offs []bgzf.Offset
		for f := int64(0); f < 3; f++ {
			for b := uint16(0); b < 2; b++ {
				offs = append(offs, bgzf.Offset{File: f, Block: b})
			}
		}
		var alpha []bgzf.Chunk
		for i := range offs {
			for j := i; j < len(offs); j++ {
				alpha = append(alpha, bgzf.Chunk{Begin: offs[i], End: offs[j]})
			}
		}
		strats := mkStrats([]int64{0, 1, 2, -1, -2})
		L := c.Int("L")
		var lists, nt int64
		first := c.Int("first")
		if first < 0 {
			c17Check(r, nil, strats)
			r.Evals, r.DistinctNT = 1, 0
			r.FP = "empty"
			r.Sample = "the empty list"
			return r
		}
		var rec func(cur []bgzf.Chunk)
		rec = func(cur []bgzf.Chunk) {
			lists++
			if nontrivialList(cur) {
				nt++
			}
			c17Check(r, cur, strats)
			if len(cur) == L || len(r.Viol) >= 8 {
				return
			}
			last := cur[len(cur)-1]
			for _, a := range alpha {
				if vo(a.Begin) >= vo(last.Begin) {
					rec(append(cur[:len(cur):len(cur)], a))
				}
			}
		}
		rec([]bgzf.Chunk{alpha[first]})
		r.Evals = lists
		r.DistinctNT = nt
		r.Count("enumerated_lists", lists)
		r.Sample = fmt.Sprintf("all %d begin-sorted lists of length<=%d starting with %s", lists, L, chunkStr(alpha[first:first+1]))
	case "random":
		rng := c.Rng()
		strats := mkStrats([]int64{0, 1, 65536, 1 << 32, -1, 1 << 44, 1 << 47, 1<<48 - 1, 1 << 48, 1 << 62})
		n := c.Int("n")
		var nt int64
		seen := map[string]bool{}
		for i := 0; i < n; i++ {
			in := c17RandList(rng)
			if nontrivialList(in) {
				k := chunkStr(in)
				if !seen[k] {
					seen[k] = true
					nt++
				}
			}
			c17Check(r, in, strats)
			if i == 0 {
				s := in
				if len(s) > 6 {
					s = s[:6]
				}
				r.Sample = fmt.Sprintf("random list of %d chunks beginning %s", len(in), chunkStr(s))
			}
		}
		r.Evals = int64(n)
		r.DistinctNT = nt
		r.Count("random_lists", int64(n))
	}
	return r
}

func c17RandList(rng *rand.Rand) []bgzf.Chunk {
	n := rng.Intn(12)
	if rng.Intn(10) == 0 {
		n = rng.Intn(200)
	}
	// file scale: small (dense overlaps) or large
	var scale, base int64
	switch rng.Intn(6) {
	case 4:
		scale = 1 << 47 // the largest file offset a virtual offset can hold is 2^48-1
	case 5:
		// around a large power of two: offsets on both sides of it
		base = int64(1)<<uint(40+rng.Intn(8)) - 8
		scale = 16
	case 0:
		scale = 4
	case 1:
		scale = 1 << 10
	case 2:
		scale = 1 << 20
	default:
		scale = 1 << 40
	}
	off := func() bgzf.Offset {
		var blk uint16
		switch rng.Intn(3) {
		case 0:
			blk = 0
		case 1:
			blk = uint16(rng.Intn(4))
		default:
			blk = uint16(rng.Intn(65536))
		}
		return bgzf.Offset{File: base + rng.Int63n(scale), Block: blk}
	}
	cs := make([]bgzf.Chunk, 0, n)
	for i := 0; i < n; i++ {
		a, b := off(), off()
		switch rng.Intn(6) {
		case 0:
			b = a // zero length
		case 1:
			if len(cs) > 0 { // duplicate / touching
				p := cs[rng.Intn(len(cs))]
				if rng.Intn(2) == 0 {
					a, b = p.Begin, p.End
				} else {
					a = p.End
				}
			}
		}
		if vo(a) > vo(b) {
			a, b = b, a
		}
		cs = append(cs, bgzf.Chunk{Begin: a, End: b})
	}
	sort.SliceStable(cs, func(i, j int) bool { return vo(cs[i].Begin) < vo(cs[j].Begin) })
	return cs
}
