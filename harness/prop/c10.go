package prop

import (
	"bytes"
	"fmt"
	"io"
	"math/rand"
	"sort"
	"strings"

	"github.com/biogo/hts/bam"
	"github.com/biogo/hts/bgzf"

	"verif/core"
	"verif/gen"
	"verif/oracle"
)

func init() {
	core.Register(&core.Prop{
		ID:    "C10",
		Level: "fault_enumeration",
		Rule: "streams: 6 BGZF streams (independent encoder and real Writer: 1..6 members, members < 256 bytes, one full-size member, empty members, extra subfields, with/without EOF marker) and 4 BAM streams (real bam.Writer output and independently encoded records cut so that records end on/off member boundaries and span members). " +
			"truncation: EVERY cut length 0..len-1 of streams <= 6 KiB, for larger streams every cut within 40 bytes of a member boundary plus 200 seeded cuts; substitution: every byte position x {orig^0x01, orig^0x80, 0x00, 0xFF} and, for the 18 header and 8 trailer bytes of every member, all 255 other values; each mutant read with rd 1 and 2. " +
			"Oracle: truncation - the data (records) returned is a prefix of the original, then a non-EOF error, or a clean end only if the cut is a member (and for BAM record) boundary, in which case everything before the cut was returned and HasEOF is false; substitution - the read fails or returns exactly the original data followed by io.EOF. " +
			"A mutant is non-trivial when it differs from the original stream; distinct = distinct (stream, mutation).",
		Floor:       map[string]int{"quick": 20000, "thorough": 200000},
		Plan:        c10Plan,
		Run:         c10Run,
		Exhaustive:  true,
		ExhaustNote: "cut points and (position, value) substitutions are enumerated completely for the small streams as stated; the large streams are sampled away from member boundaries",
		Assumptions: []string{"an error from NewReader counts as the read failing", "io.ErrUnexpectedEOF and wrapped EOF errors are errors, only a bare io.EOF from Read is a clean end"},
		TimeoutS:    map[string]int{"quick": 900, "thorough": 3400},
	})
}

type c10Stream struct {
	name   string
	bytes  []byte
	isBAM  bool
	data   []byte       // BGZF: uncompressed data
	recs   []oracle.Rec // BAM
	refs   []oracle.RefSpec
	recEnd []int       // BAM: uncompressed offset of the end of each record (and of the header at index 0)
	bounds map[int]int // member boundary (stream offset) -> uncompressed length before it
	mems   []*oracle.Member
}

func c10Streams(seed int64) []*c10Stream {
	var out []*c10Stream
	add := func(name string, b []byte) *c10Stream {
		s := &c10Stream{name: name, bytes: b, bounds: map[int]int{0: 0}}
		ms, err := oracle.ParseStream(b)
		if err != nil {
			panic(fmt.Sprintf("stream %s does not parse: %v", name, err))
		}
		s.mems = ms
		off, dec := 0, 0
		for _, m := range ms {
			off += m.Len
			dec += len(m.Data)
			s.bounds[off] = dec
			s.data = append(s.data, m.Data...)
		}
		out = append(out, s)
		return s
	}
	rng := rand.New(rand.NewSource(core.SubSeed(seed, "c10streams")))
	// S1: small file with empty members and EOF marker
	for {
		f := gen.RandFile(rng, gen.FileOpts{MaxBlocks: 5, SmallOnly: true})
		if f.HasEOF && len(f.Bytes) < 3000 && len(f.Bytes) > 200 {
			add("bgzf-small-eof", f.Bytes)
			break
		}
	}
	for {
		f := gen.RandFile(rng, gen.FileOpts{MaxBlocks: 5, SmallOnly: true, ExtraField: true})
		if !f.HasEOF && len(f.Bytes) < 3000 && len(f.Bytes) > 200 {
			add("bgzf-small-noeof-extra", f.Bytes)
			break
		}
	}
	{ // real writer, several flushed blocks
		var buf bytes.Buffer
		w := bgzf.NewWriter(&buf, 1)
		for i := 0; i < 4; i++ {
			p := make([]byte, 20+rng.Intn(300))
			gen.Fill(rng, p, 1)
			w.Write(p)
			w.Flush()
		}
		w.Close()
		add("bgzf-writer-flushed", buf.Bytes())
	}
	{ // tiny members
		var data []byte
		var cuts []int
		for i := 0; i < 6; i++ {
			p := make([]byte, 1+rng.Intn(30))
			gen.Fill(rng, p, 1)
			data = append(data, p...)
			cuts = append(cuts, len(data))
		}
		f := gen.FileFromData(rng, data, cuts, 30, true)
		add("bgzf-tiny-members", f.Bytes)
	}
	{ // one full-size member
		var buf bytes.Buffer
		w := bgzf.NewWriter(&buf, 1)
		p := make([]byte, gen.BlockSize+500)
		gen.Fill(rng, p, 1)
		w.Write(p)
		w.Close()
		add("bgzf-full-size", buf.Bytes())
	}
	{ // two members, no marker, random content
		p := make([]byte, 700)
		gen.Fill(rng, p, 2)
		f := gen.FileFromData(rng, p, []int{350}, 0, false)
		add("bgzf-random-content", f.Bytes)
	}
	// BAM streams
	mkBAM := func(name string, nrec, maxSeq int, reblock bool, spanning bool) {
		refs := gen.RandRefs(rng, 2)
		h := mkHeader(rng, refs, false)
		var recs []oracle.Rec
		for i := 0; i < nrec; i++ {
			recs = append(recs, gen.RandRec(rng, gen.RecOpts{NRefs: 2, NoBigCig: true, MaxSeq: maxSeq}, i))
		}
		text, _ := h.MarshalText()
		raw := oracle.EncodeBAMHeader(text, refs)
		ends := []int{len(raw)}
		for _, rec := range recs {
			raw = append(raw, oracle.EncodeBAMRecord(rec, true)...)
			ends = append(ends, len(raw))
		}
		var b []byte
		if reblock {
			var cuts []int
			for i, e := range ends {
				switch i % 4 {
				case 0:
					cuts = append(cuts, e)
				case 1:
					cuts = append(cuts, e+4) // exactly after the next record's length field
				case 2:
					cuts = append(cuts, e-3)
				case 3:
					cuts = append(cuts, e+1+i%3) // one to three bytes into the next record's length field
				}
			}
			if spanning {
				cuts = append(cuts, ends[1]+(ends[2]-ends[1])/2)
			}
			sort.Ints(cuts)
			var cc []int
			for i, c := range cuts {
				if c > 0 && c < len(raw) && (i == 0 || c != cuts[i-1]) {
					cc = append(cc, c)
				}
			}
			b = gen.FileFromData(rng, raw, cc, 0, true).Bytes
		} else {
			var buf bytes.Buffer
			bw, err := bam.NewWriter(&buf, h, 1)
			if err != nil {
				panic(err)
			}
			for _, rec := range recs {
				lr, _ := toRecord(rec, h)
				if err := bw.Write(lr); err != nil {
					panic(err)
				}
			}
			bw.Close()
			b = buf.Bytes()
		}
		s := add(name, b)
		s.isBAM, s.recs, s.refs, s.recEnd = true, recs, refs, ends
	}
	mkBAM("bam-writer-small", 6, 60, false, false)
	mkBAM("bam-reblocked-record-edges", 7, 60, true, false)
	mkBAM("bam-reblocked-spanning", 5, 200, true, true)
	mkBAM("bam-writer-larger", 12, 300, false, false)
	return out
}

func c10Plan(seed int64, tier string) []core.Case {
	streams := c10Streams(seed)
	var cs []core.Case
	chunk := 48
	for si, s := range streams {
		n := len(s.bytes)
		// truncation cuts
		var cuts []int
		if n <= 6144 {
			for c := 0; c < n; c++ {
				cuts = append(cuts, c)
			}
		} else {
			set := map[int]bool{}
			for b := range s.bounds {
				for d := -40; d <= 40; d++ {
					if c := b + d; c >= 0 && c < n {
						set[c] = true
					}
				}
			}
			rng := rand.New(rand.NewSource(core.SubSeed(seed, "cuts", si)))
			for k := 0; k < 200; k++ {
				set[rng.Intn(n)] = true
			}
			for c := range set {
				cuts = append(cuts, c)
			}
			sort.Ints(cuts)
		}
		for i := 0; i < len(cuts); i += 4 * chunk {
			j := i + 4*chunk
			if j > len(cuts) {
				j = len(cuts)
			}
			cs = append(cs, core.Case{Kind: "truncate", P: map[string]int64{"stream": int64(si), "lo": int64(i), "hi": int64(j), "sseed": seed}})
		}
		// substitutions: positions in ranges
		var poss []int
		if n <= 6144 {
			for p := 0; p < n; p++ {
				poss = append(poss, p)
			}
		} else {
			set := map[int]bool{}
			off := 0
			for _, m := range s.mems {
				for d := 0; d < 40; d++ {
					set[off+d] = true
					if off+m.Len-1-d >= 0 {
						set[off+m.Len-1-d] = true
					}
				}
				off += m.Len
			}
			rng := rand.New(rand.NewSource(core.SubSeed(seed, "subs", si)))
			lim := 300
			if tier == "thorough" {
				lim = 6000
			}
			for k := 0; k < lim; k++ {
				set[rng.Intn(n)] = true
			}
			for p := range set {
				if p < n {
					poss = append(poss, p)
				}
			}
			sort.Ints(poss)
		}
		for i := 0; i < len(poss); i += chunk {
			j := i + chunk
			if j > len(poss) {
				j = len(poss)
			}
			cs = append(cs, core.Case{Kind: "substitute", P: map[string]int64{"stream": int64(si), "lo": int64(i), "hi": int64(j), "sseed": seed, "thorough": b2i(tier == "thorough")}})
		}
	}
	return cs
}

// planned positions must be re-derived in the child exactly as in the plan.
func c10Positions(s *c10Stream, si int, seed int64, kind string, thorough bool) []int {
	n := len(s.bytes)
	var out []int
	if n <= 6144 {
		for p := 0; p < n; p++ {
			out = append(out, p)
		}
		return out
	}
	set := map[int]bool{}
	if kind == "truncate" {
		for b := range s.bounds {
			for d := -40; d <= 40; d++ {
				if c := b + d; c >= 0 && c < n {
					set[c] = true
				}
			}
		}
		rng := rand.New(rand.NewSource(core.SubSeed(seed, "cuts", si)))
		for k := 0; k < 200; k++ {
			set[rng.Intn(n)] = true
		}
	} else {
		off := 0
		for _, m := range s.mems {
			for d := 0; d < 40; d++ {
				set[off+d] = true
				if off+m.Len-1-d >= 0 {
					set[off+m.Len-1-d] = true
				}
			}
			off += m.Len
		}
		rng := rand.New(rand.NewSource(core.SubSeed(seed, "subs", si)))
		lim := 300
		if thorough {
			lim = 6000
		}
		for k := 0; k < lim; k++ {
			set[rng.Intn(n)] = true
		}
	}
	for p := range set {
		if p < n {
			out = append(out, p)
		}
	}
	sort.Ints(out)
	return out
}

type c10Out struct {
	data     []byte
	nrec     int
	recErr   string // first record mismatch
	err      error  // terminating error; io.EOF = clean end
	newErr   bool   // the constructor failed
	panicked string
}

func c10Read(s *c10Stream, b []byte, rd int) (o c10Out) {
	pv, st := core.Recover(func() {
		if s.isBAM {
			br, err := bam.NewReader(bytes.NewReader(b), rd)
			if err != nil {
				o.err, o.newErr = err, true
				return
			}
			defer br.Close()
			h := br.Header()
			if len(h.Refs()) != len(s.refs) {
				o.recErr = fmt.Sprintf("header has %d references, original %d", len(h.Refs()), len(s.refs))
			}
			for {
				rec, err := br.Read()
				if err != nil {
					o.err = err
					return
				}
				if o.nrec >= len(s.recs) {
					o.recErr = "more records than the original"
					o.nrec++
					return
				}
				if o.recErr == "" {
					if cls, d := compareRecord(rec, s.recs[o.nrec], h, omitNone); cls != "" {
						o.recErr = fmt.Sprintf("record %d: %s: %s", o.nrec, cls, d)
					}
				}
				o.nrec++
			}
		}
		r, err := bgzf.NewReader(bytes.NewReader(b), rd)
		if err != nil {
			o.err, o.newErr = err, true
			return
		}
		defer r.Close()
		buf := make([]byte, 4096)
		for i := 0; i < 1000000; i++ {
			n, err := r.Read(buf)
			o.data = append(o.data, buf[:n]...)
			if err != nil {
				o.err = err
				return
			}
		}
		o.err = fmt.Errorf("no end after 1000000 reads")
	})
	if pv != nil {
		o.panicked = fmt.Sprintf("%v at %s", pv, core.TopLibFrame(st))
	}
	return
}

func c10Run(c core.Case) *core.Result {
	r := core.NewResult()
	streams := c10Streams(c.Int64("sseed"))
	si := c.Int("stream")
	s := streams[si]
	lo, hi := c.Int("lo"), c.Int("hi")
	poss := c10Positions(s, si, c.Int64("sseed"), c.Kind, c.Int("thorough") == 1)
	if hi > len(poss) {
		hi = len(poss)
	}
	var n, nt int64
	r.FP = core.Hash(c.Kind, si, lo, hi)
	r.Nontrivial = true
	for _, p := range poss[lo:hi] {
		if len(r.Viol) >= 6 {
			break
		}
		if c.Kind == "truncate" {
			cut := p
			prefix := s.bytes[:cut]
			for _, rd := range []int{1, 2} {
				n++
				nt++
				o := c10Read(s, prefix, rd)
				c10JudgeTrunc(r, s, cut, rd, o)
			}
			continue
		}
		orig := s.bytes[p]
		vals := []byte{orig ^ 0x01, orig ^ 0x80, 0x00, 0xff}
		// header and trailer bytes of the member: all values
		off := 0
		for _, m := range s.mems {
			if p >= off && p < off+m.Len {
				if p-off < 18 || p >= off+m.Len-8 {
					vals = vals[:0]
					for v := 0; v < 256; v++ {
						vals = append(vals, byte(v))
					}
				}
			}
			off += m.Len
		}
		seen := map[byte]bool{orig: true}
		for _, v := range vals {
			if seen[v] {
				continue
			}
			seen[v] = true
			mut := append([]byte(nil), s.bytes...)
			mut[p] = v
			for _, rd := range []int{1, 2} {
				n++
				nt++
				o := c10Read(s, mut, rd)
				c10JudgeSubst(r, s, p, v, rd, o)
			}
		}
	}
	r.Evals, r.DistinctNT = n, nt
	r.Count(c.Kind+"_mutants_read", n)
	r.Add("streams", s.name)
	r.Sample = fmt.Sprintf("%s of stream %s (%d bytes, %d members), positions %d..%d", c.Kind, s.name, len(s.bytes), len(s.mems), poss[lo], poss[hi-1])
	return r
}

func isCleanEOF(err error) bool { return err == io.EOF }

func c10JudgeTrunc(r *core.Result, s *c10Stream, cut, rd int, o c10Out) {
	cfg := fmt.Sprintf("stream=%s (%d bytes) cut=%d rd=%d", s.name, len(s.bytes), cut, rd)
	if o.panicked != "" {
		r.Violate("truncate|panic", "%s: panic: %s", cfg, o.panicked)
		return
	}
	dec, atBoundary := s.bounds[cut]
	if o.newErr {
		return // the read failed
	}
	if s.isBAM {
		if o.recErr != "" {
			r.Violate("truncate|bam-wrong-record", "%s: %s", cfg, o.recErr)
			return
		}
		if isCleanEOF(o.err) {
			recBoundary := -1
			for i, e := range s.recEnd {
				if atBoundary && e == dec {
					recBoundary = i
				}
			}
			if !atBoundary || recBoundary < 0 {
				r.Violate("truncate|bam-clean-end", "%s: %d records then a clean io.EOF, but the cut is not at a member boundary that is also a record boundary (member boundary=%v, uncompressed bytes before the cut=%d)", cfg, o.nrec, atBoundary, dec)
				return
			}
			if o.nrec != recBoundary {
				r.Violate("truncate|bam-lost-records", "%s: clean io.EOF after %d records, %d are complete before the cut", cfg, o.nrec, recBoundary)
			}
			c10HasEOF(r, cfg, s.bytes[:cut])
		}
		return
	}
	if len(o.data) > len(s.data) || !bytes.Equal(o.data, s.data[:len(o.data)]) {
		r.Violate("truncate|not-prefix", "%s: the %d bytes returned are not a prefix of the original data", cfg, len(o.data))
		return
	}
	if isCleanEOF(o.err) {
		if !atBoundary {
			r.Violate("truncate|clean-end", "%s: %d bytes then a clean io.EOF, but the cut is inside a member", cfg, len(o.data))
			return
		}
		if len(o.data) != dec {
			r.Violate("truncate|lost-data", "%s: clean io.EOF after %d bytes, the members before the cut hold %d", cfg, len(o.data), dec)
		}
		c10HasEOF(r, cfg, s.bytes[:cut])
	}
}

func c10HasEOF(r *core.Result, cfg string, prefix []byte) {
	// A proper prefix of a stream the library's writer closed never ends in
	// the end-of-file marker (the writer emits it once, last). Streams from
	// the independent encoder may hold an empty member with the marker's
	// bytes in the middle; there the prefix is judged by what it ends with.
	want := oracle.HasEOFMarker(prefix)
	if strings.Contains(cfg, "stream=bgzf-writer") || strings.Contains(cfg, "stream=bgzf-full-size") || strings.Contains(cfg, "stream=bam-writer") {
		want = false
	}
	if len(prefix) < 28 {
		return
	}
	got, err := bgzf.HasEOF(bytes.NewReader(prefix))
	if err != nil || got != want {
		r.Violate("truncate|haseof", "%s: HasEOF on the prefix = (%v, %v), the prefix ends with the marker = %v", cfg, got, err, want)
	}
	r.Count("clean_ends_checked", 1)
}

func c10JudgeSubst(r *core.Result, s *c10Stream, p int, v byte, rd int, o c10Out) {
	cfg := fmt.Sprintf("stream=%s (%d bytes) byte %d changed %#02x -> %#02x rd=%d", s.name, len(s.bytes), p, s.bytes[p], v, rd)
	if o.panicked != "" {
		r.Violate("substitute|panic", "%s: panic: %s", cfg, o.panicked)
		return
	}
	if o.newErr || (o.err != nil && !isCleanEOF(o.err)) {
		// failed: but what was returned before the failure must not be taken for
		// different valid data; the property only demands failure or identity.
		return
	}
	if s.isBAM {
		if o.recErr != "" || o.nrec != len(s.recs) {
			r.Violate("substitute|bam-different-data", "%s: the read ended cleanly with %d records (original %d) %s", cfg, o.nrec, len(s.recs), o.recErr)
		}
		return
	}
	if !bytes.Equal(o.data, s.data) {
		i := 0
		for i < len(o.data) && i < len(s.data) && o.data[i] == s.data[i] {
			i++
		}
		r.Violate("substitute|different-data", "%s: the read ended cleanly with %d bytes, the original has %d; first difference at %d", cfg, len(o.data), len(s.data), i)
	}
}
