package prop

import (
	"bytes"
	"fmt"
	"io"
	"math/rand"
	"runtime"
	"sort"
	"sync"

	"github.com/biogo/hts/bam"
	"github.com/biogo/hts/bgzf"
	"github.com/biogo/hts/bgzf/index"
	"github.com/biogo/hts/csi"
	"github.com/biogo/hts/tabix"

	"verif/core"
	"verif/gen"
	"verif/oracle"
)

func init() {
	core.Register(&core.Prop{
		ID:    "C15",
		Level: "exploration",
		Rule: "built cases: every index the C04 generator builds (BAI, tabix with random Format/columns/meta/skip, CSI version 1 and 2 with random auxiliary bytes and the C04 geometries). W=write, R=read: W(R(W(x))) == W(x) byte for byte; Chunks on the C04 query set gives identical chunk lists on x and R(W(x)); NumRefs, ReferenceStats(i) and Unmapped() identical on both and equal to the true counts kept by the generator (mapped = placed and mapped, unmapped = placed with the unmapped flag, unplaced count, span = Begin of the first to End of the last record of the reference). " +
			"byte-built cases: index files assembled by an independent encoder in shapes Add cannot produce (references without bins, no statistics pseudo-bin, no trailing unplaced count, unsorted bins): y=R(x0); W(R(W(y))) == W(y); queries and statistics identical on y and R(W(y)); statistics equal those encoded. " +
			"parallel cases: 3-4 independent index files decoded at the same time by as many goroutines, from readers that deliver 1-11 bytes per Read and yield before each; W(R(x)) must equal the bytes obtained when each is decoded alone (decoders share no state); repeated under the race detector. " +
			"Non-trivial: >= 2 references or >= 5 bins; distinct = distinct index contents.",
		Floor:       map[string]int{"quick": 200, "thorough": 4000},
		Plan:        c15Plan,
		Run:         c15Run,
		Assumptions: []string{"statistics are compared after Add in sorted order (the same sets as C04)", "statistics of an index without any placed record: only the unplaced count"},
		TimeoutS:    map[string]int{"quick": 900, "thorough": 3400},
	})
}

func c15Plan(seed int64, tier string) []core.Case {
	n := 100
	if tier == "thorough" {
		n = 2000
	}
	var cs []core.Case
	for i := 0; i < n; i++ {
		for kind := int64(0); kind < 3; kind++ {
			k := []string{"bai", "tabix", "csi"}[kind]
			cs = append(cs, core.Case{Kind: k, Seed: core.SubSeed(seed, "c15", kind, i), P: map[string]int64{"geom": int64(i % len(csiGeoms))}})
			cs = append(cs, core.Case{Kind: k + "-bytes", Seed: core.SubSeed(seed, "c15b", kind, i), P: map[string]int64{"geom": int64(i % len(csiGeoms))}})
		}
	}
	// parallel: independent indexes decoded at the same time by several
	// goroutines, from readers that deliver a few bytes at a time and yield;
	// each must come out as it does alone. Repeated under the race detector.
	np := 24
	if tier == "thorough" {
		np = 300
	}
	for i := 0; i < np; i++ {
		cs = append(cs, core.Case{Kind: "parallel", Seed: core.SubSeed(seed, "c15p", i), Race: i%2 == 0, P: map[string]int64{"mix": int64(i % 4)}})
	}
	return cs
}

// dribble delivers a few bytes per Read and yields before each.
type dribble struct {
	b   []byte
	pos int
	x   uint64
}

func (d *dribble) Read(p []byte) (int, error) {
	if d.pos >= len(d.b) {
		return 0, io.EOF
	}
	runtime.Gosched()
	d.x = d.x*6364136223846793005 + 1442695040888963407
	n := 1 + int(d.x>>33)%11
	if n > len(p) {
		n = len(p)
	}
	n = copy(p[:n], d.b[d.pos:])
	d.pos += n
	return n, nil
}

func c15ReadWrite(kind string, rd io.Reader) ([]byte, error) {
	var buf bytes.Buffer
	switch kind {
	case "bai":
		idx, err := bam.ReadIndex(rd)
		if err != nil {
			return nil, err
		}
		err = bam.WriteIndex(&buf, idx)
		return buf.Bytes(), err
	case "tabix":
		idx, err := tabix.ReadFrom(rd)
		if err != nil {
			return nil, err
		}
		err = tabix.WriteTo(&buf, idx)
		return buf.Bytes(), err
	}
	idx, err := csi.ReadFrom(rd)
	if err != nil {
		return nil, err
	}
	err = csi.WriteTo(&buf, idx)
	return buf.Bytes(), err
}

func c15Parallel(r *core.Result, c core.Case) {
	rng := c.Rng()
	kinds := [][]string{{"bai", "bai", "tabix"}, {"tabix", "bai", "tabix", "bai"}, {"csi", "csi", "csi"}, {"bai", "csi", "tabix", "bai"}}[c.Int("mix")]
	type job struct {
		kind string
		raw  []byte
		want []byte
	}
	var jobs []job
	for _, k := range kinds {
		for try := 0; try < 20; try++ {
			ic, cls, _ := newIdxCase(rng, k, rng.Intn(len(csiGeoms)), false)
			if cls != "" {
				continue
			}
			x, cls, _ := ic.build(rng)
			if cls != "" || x == nil {
				continue
			}
			raw, err := x.write()
			if err != nil || len(raw) < 64 {
				continue
			}
			want, err := c15ReadWrite(k, bytes.NewReader(raw))
			if err != nil {
				continue // judged by the sequential cases
			}
			// alone, but from a source that returns the last bytes together
			// with io.EOF, and from one that returns a few bytes at a time
			for si, src := range []io.Reader{&eagerEOF{b: raw}, &eagerEOF{b: raw, max: 1 + rng.Intn(40)}, &dribble{b: raw, x: rng.Uint64()}} {
				got, err := c15ReadWrite(k, src)
				if err != nil || !bytes.Equal(got, want) {
					r.Violate(k+"|source-dependent", "%s index of %d bytes read from source kind %d: err=%v, same result as from a plain reader: %v", k, len(raw), si, err, bytes.Equal(got, want))
				}
			}
			jobs = append(jobs, job{k, raw, want})
			break
		}
	}
	r.FP = core.Hash("parallel", c.Seed)
	r.Sample = map[string]any{"kind": "parallel", "indexes": fmt.Sprint(kinds), "bytes": func() (n []int) {
		for _, j := range jobs {
			n = append(n, len(j.raw))
		}
		return
	}()}
	if len(jobs) < 2 {
		return
	}
	r.Nontrivial = true
	var wg sync.WaitGroup
	var mu sync.Mutex
	for gi, j := range jobs {
		wg.Add(1)
		go func(gi int, j job) {
			defer wg.Done()
			for rep := 0; rep < 6; rep++ {
				got, err := c15ReadWrite(j.kind, &dribble{b: j.raw, x: uint64(c.Seed) + uint64(gi*100+rep)})
				if err != nil || !bytes.Equal(got, j.want) {
					mu.Lock()
					r.Violate(j.kind+"|parallel-read-differs", "index %d (%s, %d bytes) decoded while %d other indexes were being decoded: err=%v, rewritten bytes equal to the ones obtained alone: %v", gi, j.kind, len(j.raw), len(jobs)-1, err, bytes.Equal(got, j.want))
					mu.Unlock()
					return
				}
			}
		}(gi, j)
	}
	wg.Wait()
	r.Count("parallel_decodes", int64(6*len(jobs)))
}

func sameStats(a, b anyIndex) string {
	if a.numRefs() != b.numRefs() {
		return fmt.Sprintf("NumRefs %d vs %d", a.numRefs(), b.numRefs())
	}
	for i := 0; i < a.numRefs(); i++ {
		sa, oka := a.stats(i)
		sb, okb := b.stats(i)
		if oka != okb || sa != sb {
			return fmt.Sprintf("ReferenceStats(%d) = (%+v,%v) vs (%+v,%v)", i, sa, oka, sb, okb)
		}
	}
	ua, oka := a.unmapped()
	ub, okb := b.unmapped()
	if ua != ub || oka != okb {
		return fmt.Sprintf("Unmapped() = (%d,%v) vs (%d,%v)", ua, oka, ub, okb)
	}
	return ""
}

func sameAnswers(a, b anyIndex, qs [][3]int) string {
	for _, q := range qs {
		ca, ea := a.query(q[0], q[1], q[2])
		cb, eb := b.query(q[0], q[1], q[2])
		if (ea == nil) != (eb == nil) || !eqChunks(ca, cb) {
			return fmt.Sprintf("Chunks(ref %d, %d, %d) = %s (err %v) vs %s (err %v)", q[0], q[1], q[2], chunkStr(trimChunks(ca)), ea, chunkStr(trimChunks(cb)), eb)
		}
	}
	return ""
}

// roundTrip checks W(R(W(x))) == W(x) and equal answers/statistics.
func roundTrip(r *core.Result, desc string, kind string, x anyIndex, qs [][3]int) anyIndex {
	var b1, b2 []byte
	var y anyIndex
	var err error
	pv, st := core.Recover(func() {
		b1, err = x.write()
		if err != nil {
			return
		}
		y, err = x.reread(b1)
		if err != nil {
			return
		}
		b2, err = y.write()
	})
	if pv != nil {
		r.Violate(kind+"|roundtrip-panic|"+core.TopLibFrame(st), "%s: %v", desc, pv)
		return nil
	}
	if err != nil {
		r.Violate(kind+"|roundtrip-error", "%s: write/read/write: %v", desc, err)
		return nil
	}
	if !bytes.Equal(b1, b2) {
		i := 0
		for i < len(b1) && i < len(b2) && b1[i] == b2[i] {
			i++
		}
		r.Violate(kind+"|bytes-differ", "%s: W(R(W(x))) differs from W(x) at byte %d (%d vs %d bytes)", desc, i, len(b2), len(b1))
		return nil
	}
	var d string
	pv, st = core.Recover(func() {
		if d = sameStats(x, y); d == "" {
			d = sameAnswers(x, y, qs)
		}
	})
	if pv != nil {
		r.Violate(kind+"|compare-panic|"+core.TopLibFrame(st), "%s: %v", desc, pv)
		return nil
	}
	if d != "" {
		r.Violate(kind+"|differs-after-roundtrip", "%s: %s", desc, d)
		return nil
	}
	return y
}

func c15Run(c core.Case) *core.Result {
	r := core.NewResult()
	rng := c.Rng()
	if c.Kind == "parallel" {
		c15Parallel(r, c)
		return r
	}
	if len(c.Kind) > 6 && c.Kind[len(c.Kind)-6:] == "-bytes" {
		c15Bytes(r, rng, c.Kind[:len(c.Kind)-6], c.Int("geom"))
		return r
	}
	ic, cls, d := newIdxCase(rng, c.Kind, c.Int("geom"), false)
	if cls != "" {
		r.Violate("harness|"+cls, "%s", d)
		return r
	}
	placed := 0
	for _, rec := range ic.set.Recs {
		if rec.Ref >= 0 {
			placed++
		}
	}
	r.FP = core.Hash(ic.desc, fmt.Sprint(ic.set.Recs))
	r.Sample = map[string]any{"config": ic.desc}
	if placed == 0 {
		r.Count("indexes_of_unplaced_records_only", 1)
	}
	x, cls, d := ic.build(rng)
	if cls != "" {
		r.Violate(ic.kind+"|"+cls, "%s: %s", ic.desc, d)
		return r
	}
	var tb *tabix.Index
	if t, ok := x.(*tbxIdx); ok {
		tb = t.idx
		tb.Format = byte(rng.Intn(3))
		tb.ZeroBased = rng.Intn(2) == 0
		tb.NameColumn, tb.BeginColumn, tb.EndColumn = int32(1+rng.Intn(5)), int32(1+rng.Intn(5)), int32(rng.Intn(6))
		tb.MetaChar = rune("#@%"[rng.Intn(3)])
		tb.Skip = int32(rng.Intn(10))
	}
	qs := ic.queries(rng)
	// true statistics
	type st struct {
		m, u  uint64
		first bool
		c     bgzf.Chunk
	}
	truth := map[int]*st{}
	maxRef := -1
	var unplaced uint64
	unplacedAdded := false
	for i, rec := range ic.set.Recs {
		if rec.Ref < 0 {
			unplaced++
			unplacedAdded = true
			continue
		}
		if rec.Ref > maxRef {
			maxRef = rec.Ref
		}
		s := truth[rec.Ref]
		if s == nil {
			s = &st{c: ic.chunks[i]}
			truth[rec.Ref] = s
		}
		s.c.End = ic.chunks[i].End
		if rec.Mapped {
			s.m++
		} else {
			s.u++
		}
	}
	_ = unplacedAdded
	wantRefs := maxRef + 1
	if ic.kind == "tabix" {
		wantRefs = len(truth) // names are numbered in first-seen order
	}
	if x.numRefs() != wantRefs {
		r.Violate(ic.kind+"|stats|numrefs", "%s: NumRefs() = %d, records were placed on %d references (highest id %d)", ic.desc, x.numRefs(), len(truth), maxRef)
		return r
	}
	// tabix ids follow first-seen order of names
	order := []int{}
	if ic.kind == "tabix" {
		seen := map[int]bool{}
		for _, rec := range ic.set.Recs {
			if rec.Ref >= 0 && !seen[rec.Ref] {
				seen[rec.Ref] = true
				order = append(order, rec.Ref)
			}
		}
	} else {
		for i := 0; i <= maxRef; i++ {
			order = append(order, i)
		}
	}
	for id, ref := range order {
		got, ok := x.stats(id)
		want := truth[ref]
		if want == nil {
			if ok {
				r.Violate(ic.kind+"|stats|phantom", "%s: ReferenceStats(%d) is valid but no record was placed there", ic.desc, id)
			}
			continue
		}
		if !ok || got.Mapped != want.m || got.Unmapped != want.u || got.Chunk != want.c {
			r.Violate(ic.kind+"|stats|counts", "%s: ReferenceStats(%d) = (%+v, %v); true counts mapped=%d unmapped=%d span=%v", ic.desc, id, got, ok, want.m, want.u, want.c)
			return r
		}
	}
	if u, ok := x.unmapped(); !ok || u != unplaced {
		r.Violate(ic.kind+"|stats|unplaced", "%s: Unmapped() = (%d,%v), %d unplaced records were added", ic.desc, u, ok, unplaced)
		return r
	}
	y := roundTrip(r, ic.desc, ic.kind, x, qs)
	if y == nil {
		return r
	}
	if tb != nil {
		t2 := y.(*tbxIdx).idx
		if t2.Format != tb.Format || t2.ZeroBased != tb.ZeroBased || t2.NameColumn != tb.NameColumn || t2.BeginColumn != tb.BeginColumn || t2.EndColumn != tb.EndColumn || t2.MetaChar != tb.MetaChar || t2.Skip != tb.Skip || fmt.Sprint(t2.Names()) != fmt.Sprint(tb.Names()) {
			r.Violate("tabix|header-fields", "%s: tabix header fields changed in the round trip: %+v %v vs %+v %v", ic.desc, *t2, t2.Names(), *tb, tb.Names())
		}
	}
	if cx, ok := x.(*csiIdx); ok {
		cy := y.(*csiIdx)
		if cy.idx.Version != cx.idx.Version || !bytes.Equal(cy.idx.Auxilliary, cx.idx.Auxilliary) {
			r.Violate("csi|header-fields", "%s: CSI version/aux changed: v%d %x vs v%d %x", ic.desc, cy.idx.Version, cy.idx.Auxilliary, cx.idx.Version, cx.idx.Auxilliary)
		}
	}
	// merged then round trip
	for _, ms := range mergeStrats[1:3] {
		mx, _, _ := ic.build(rng)
		if mx == nil {
			break
		}
		mx.merge(ms.f)
		if roundTrip(r, ic.desc+" merged="+ms.name, ic.kind, mx, qs) == nil {
			return r
		}
	}
	nb := 0
	r.Nontrivial = len(truth) >= 2 || len(ic.set.Recs) >= 5
	_ = nb
	r.Count("built_indexes", 1)
	return r
}

// c15Bytes builds an index file with the independent encoder.
func c15Bytes(r *core.Result, rng *rand.Rand, kind string, geom int) {
	f := &oracle.IdxFile{}
	m, d := 14, 5
	if kind == "csi" {
		m, d = csiGeoms[geom][0], csiGeoms[geom][1]
		f.MinShift, f.Depth = int32(m), int32(d)
		if rng.Intn(2) == 0 {
			f.Aux = make([]byte, rng.Intn(30))
			rng.Read(f.Aux)
		}
	}
	maxBin := ((1 << uint(3*(d+1))) - 1) / 7
	nref := 1 + rng.Intn(4)
	voff := uint64(1000 << 16)
	next := func() uint64 {
		voff += uint64(rng.Intn(5000))<<16 | uint64(rng.Intn(60000))
		return voff
	}
	for i := 0; i < nref; i++ {
		var ref oracle.IdxRef
		if rng.Intn(4) != 0 { // some references have no bins at all
			nb := 1 + rng.Intn(6)
			used := map[uint32]bool{}
			var first, last uint64
			for k := 0; k < nb; k++ {
				bn := uint32(rng.Intn(maxBin))
				if used[bn] {
					continue
				}
				used[bn] = true
				b := oracle.IdxBin{Bin: bn}
				for c := 1 + rng.Intn(3); c > 0; c-- {
					beg := next()
					end := next()
					if first == 0 {
						first = beg
					}
					last = end
					b.Chunks = append(b.Chunks, oracle.IdxChunk{Beg: beg, End: end})
				}
				b.LOffset = b.Chunks[0].Beg
				ref.Bins = append(ref.Bins, b)
			}
			if rng.Intn(2) == 0 { // unsorted bins
				rng.Shuffle(len(ref.Bins), func(a, b int) { ref.Bins[a], ref.Bins[b] = ref.Bins[b], ref.Bins[a] })
			}
			if rng.Intn(2) == 0 {
				ref.Stats = &oracle.IdxStats{Beg: first, End: last, Mapped: uint64(rng.Intn(1000)), Unmapped: uint64(rng.Intn(50))}
				ref.StatsAt = rng.Intn(len(ref.Bins) + 2) // anywhere among the bins, as other writers do
			}
			if kind != "csi" {
				o := first
				for t := 1 + rng.Intn(20); t > 0; t-- {
					if rng.Intn(3) == 0 {
						o += uint64(rng.Intn(3000)) << 16
					}
					ref.Intervals = append(ref.Intervals, o)
				}
			}
		}
		f.Refs = append(f.Refs, ref)
		f.Names = append(f.Names, fmt.Sprintf("seq%d", i))
	}
	if rng.Intn(2) == 0 {
		v := uint64(rng.Intn(100))
		f.NoCoor = &v
	}
	f.Format, f.ColSeq, f.ColBeg, f.ColEnd, f.Meta, f.Skip = int32(rng.Intn(3)), 1, 2, int32(rng.Intn(4)), '#', int32(rng.Intn(5))
	var raw []byte
	var x anyIndex
	var err error
	desc := fmt.Sprintf("byte-built %s minShift=%d depth=%d refs=%d nocoor=%v", kind, m, d, nref, f.NoCoor != nil)
	pv, st := core.Recover(func() {
		switch kind {
		case "bai":
			raw = f.EncodeBAI()
			var idx *bam.Index
			idx, err = bam.ReadIndex(bytes.NewReader(raw))
			if err == nil {
				x = &baiIdx{idx: idx, refs: newRefs(nref)}
			}
		case "tabix":
			raw = f.EncodeTBI()
			var idx *tabix.Index
			idx, err = tabix.ReadFrom(bytes.NewReader(raw))
			if err == nil {
				x = &tbxIdx{idx: idx, names: f.Names}
			}
		default:
			raw = f.EncodeCSI()
			var idx *csi.Index
			idx, err = csi.ReadFrom(bytes.NewReader(raw))
			if err == nil {
				x = &csiIdx{idx: idx}
			}
		}
	})
	r.FP = core.Hash(desc, raw)
	r.Sample = map[string]any{"config": desc, "bytes": len(raw)}
	if pv != nil {
		r.Violate(kind+"|read-panic|"+core.TopLibFrame(st), "%s: reading a spec-built index panicked: %v", desc, pv)
		return
	}
	if err != nil {
		r.Violate(kind+"|read-error", "%s: reading a spec-built index failed: %v", desc, err)
		return
	}
	// statistics equal those encoded
	if x.numRefs() != nref {
		r.Violate(kind+"|stats|numrefs", "%s: NumRefs() = %d, encoded %d", desc, x.numRefs(), nref)
		return
	}
	for i, ref := range f.Refs {
		got, ok := x.stats(i)
		if ok != (ref.Stats != nil) {
			r.Violate(kind+"|stats|presence", "%s: ReferenceStats(%d) valid=%v, encoded pseudo-bin present=%v", desc, i, ok, ref.Stats != nil)
			return
		}
		if ok {
			want := index.ReferenceStats{Chunk: bgzf.Chunk{Begin: unvo(ref.Stats.Beg), End: unvo(ref.Stats.End)}, Mapped: ref.Stats.Mapped, Unmapped: ref.Stats.Unmapped}
			if got != want {
				r.Violate(kind+"|stats|values", "%s: ReferenceStats(%d) = %+v, encoded %+v", desc, i, got, want)
				return
			}
		}
	}
	u, ok := x.unmapped()
	if ok != (f.NoCoor != nil) || (ok && u != *f.NoCoor) {
		r.Violate(kind+"|stats|unplaced", "%s: Unmapped() = (%d,%v), encoded %v", desc, u, ok, f.NoCoor)
		return
	}
	// queries: windows over the whole range
	var qs [][3]int
	max := 1 << uint(m+3*d)
	for i := 0; i < nref; i++ {
		if c := gen.SpanCap(m, d); c > 0 {
			b := rng.Intn(max-1) / c * c
			qs = append(qs, [3]int{i, b, b + c})
		} else {
			qs = append(qs, [3]int{i, 0, max - 1})
		}
		for k := 0; k < 12; k++ {
			b := rng.Intn(max - 1)
			e := b + 1 + rng.Intn(1<<uint(m+2))
			if e > max-1 {
				e = max - 1
			}
			if e > b {
				qs = append(qs, [3]int{i, b, e})
			}
		}
	}
	sort.Slice(qs, func(a, b int) bool { return fmt.Sprint(qs[a]) < fmt.Sprint(qs[b]) })
	if roundTrip(r, desc, kind, x, qs) != nil {
		r.Count("byte_built_indexes", 1)
	}
	nb := 0
	for _, ref := range f.Refs {
		nb += len(ref.Bins)
	}
	r.Nontrivial = nref >= 2 || nb >= 5
}

func unvo(v uint64) bgzf.Offset { return bgzf.Offset{File: int64(v >> 16), Block: uint16(v)} }
