package prop

import (
	"bytes"
	"fmt"
	"go/ast"
	"go/parser"
	"go/token"
	"io"
	"math/rand"
	"os"
	"runtime"
	"sort"
	"strconv"
	"strings"
	"time"

	"github.com/biogo/hts/bam"
	"github.com/biogo/hts/bgzf"
	"github.com/biogo/hts/bgzf/index"
	"github.com/biogo/hts/cram"
	"github.com/biogo/hts/cram/encoding/itf8"
	"github.com/biogo/hts/cram/encoding/ltf8"
	"github.com/biogo/hts/csi"
	"github.com/biogo/hts/fai"
	"github.com/biogo/hts/sam"
	"github.com/biogo/hts/tabix"

	"verif/core"
	"verif/gen"
	"verif/oracle"
)

func init() {
	core.Register(&core.Prop{
		ID:    "C11",
		Level: "exploration",
		Rule: "15 decoder entry points (bgzf reader rd 1/2; bam reader with every Omit mode; sam reader; UnmarshalSAM with nil and real header; ParseAux; ParseCigar; Header.UnmarshalText; Header.UnmarshalBinary; bam.ReadIndex; csi.ReadFrom; tabix.ReadFrom; fai.ReadFrom; fai.NewIndex; cram reader -> containers -> blocks -> Value; itf8/ltf8 Decode). Inputs: valid encodings from the other properties' generators, structure-aware mutations of them (length/count field edits to 0, 1, -1, len+-1, large; field splices from another valid input; truncation at byte and 4-byte edges; bit flips; insert/delete/duplicate runs; for text: dropped/duplicated separators, emptied and 1-2 byte fields, over-long numbers, empty lines) and the crasher corpora embedded in the repository's bgzf and bam tests; BAM payload mutants are re-wrapped in valid BGZF so that they reach the BAM parser. " +
			"Oracle: the decode returns a value or an error without panic (recover) or process death, within 64*len+1024 underlying Read calls; every value returned without error is pushed through the library's own accessors, formatters, writers and index builders under recover. Children run with checkptr and a 1.5 GB address-space limit; inputs that die with out-of-memory are counted separately and not judged. " +
			"Non-trivial: a mutated input (not a pristine one); distinct = distinct input byte strings per entry point.",
		Floor:       map[string]int{"quick": 20000, "thorough": 500000},
		Plan:        c11Plan,
		Run:         c11Run,
		Assumptions: []string{"findings are keyed by (entry point, innermost library function, failure class), not by line number", "bounded time is decided by counting underlying Read calls, not by wall clock"},
		TimeoutS:    map[string]int{"quick": 240, "thorough": 1800},
		MemLimitKB:  1500000,
		Resumable:   true,
		ChildEnv:    []string{"GOMAXPROCS=2"},
	})
}

var c11Entries = []string{"bgzf", "bam", "sam-reader", "unmarshal-sam", "parse-aux", "parse-cigar", "header-text", "header-binary", "bai", "csi", "tabix", "fai-read", "fai-new", "cram", "tf8"}

func c11Plan(seed int64, tier string) []core.Case {
	per, batch := 4000, 100
	if tier == "thorough" {
		per, batch = 120000, 400
	}
	var cs []core.Case
	for _, e := range c11Entries {
		n := per
		if e == "bam" || e == "bgzf" || e == "cram" {
			n = per / 2
		}
		if tier == "thorough" && (e == "bai" || e == "csi" || e == "tabix" || e == "header-binary") {
			// a quarter of the mutants of these count-heavy formats die at
			// the memory limit (not judged), each costing a child process
			n = per / 3
		}
		for i := 0; i < n; i += batch {
			cs = append(cs, core.Case{Kind: e, Seed: core.SubSeed(seed, "c11", e, i), P: map[string]int64{"n": int64(batch)}})
		}
	}
	// bam-aux: the enumerated family of aux field structures (every type
	// byte, every array subtype byte, counts around the size arithmetic's
	// edges, payloads exact/short/long), one BAM record each. thorough runs
	// all parts, quick a seeded third.
	parts := (len(c11AuxFamily()) + c11AuxPart - 1) / c11AuxPart
	rng := core.Case{Seed: core.SubSeed(seed, "c11", "bam-aux")}.Rng()
	for p := 0; p < parts; p++ {
		if tier != "thorough" && (p+rng.Intn(3))%3 != 0 {
			continue
		}
		cs = append(cs, core.Case{Kind: "bam-aux", Seed: core.SubSeed(seed, "c11", "bam-aux", p), P: map[string]int64{"part": int64(p), "n": c11AuxPart}})
	}
	// bam-fields: every fixed-size field of the BAM header and of a record
	// set to every value of a list (edges of its own range, the sizes of the
	// surrounding data +-1), under every Omit mode and rd 1 and 2.
	fparts := (len(c11FieldFamily()) + c11AuxPart - 1) / c11AuxPart
	for p := 0; p < fparts; p++ {
		if tier != "thorough" && (p+rng.Intn(3))%3 != 0 {
			continue
		}
		cs = append(cs, core.Case{Kind: "bam-fields", Seed: core.SubSeed(seed, "c11", "bam-fields", p), P: map[string]int64{"part": int64(p), "n": c11AuxPart}})
	}
	// bam-rg: a header with a read group and a program, records whose RG, PG,
	// PU and LB fields take every aux type and matching / other values - what
	// Header.Validate looks at.
	gparts := (len(c11RGFamily()) + c11AuxPart - 1) / c11AuxPart
	for p := 0; p < gparts; p++ {
		cs = append(cs, core.Case{Kind: "bam-rg", Seed: core.SubSeed(seed, "c11", "bam-rg", p), P: map[string]int64{"part": int64(p), "n": c11AuxPart}})
	}
	tparts := (len(c11AuxTextFamily()) + c11AuxPart - 1) / c11AuxPart
	for p := 0; p < tparts; p++ {
		if tier != "thorough" && (p+rng.Intn(3))%3 != 0 {
			continue
		}
		cs = append(cs, core.Case{Kind: "aux-text", Seed: core.SubSeed(seed, "c11", "aux-text", p), P: map[string]int64{"part": int64(p), "n": c11AuxPart}})
	}
	return cs
}

const c11AuxPart = 400

var c11EmptyHdr, _ = sam.NewHeader(nil, nil)

var c11RGFam [][]byte

// c11RGFamily enumerates BAM streams whose header has one read group (with PU
// and LB) and one program, and whose single record carries RG, PG, PU and LB
// fields in every combination of a few typed values.
func c11RGFamily() [][]byte {
	if c11RGFam != nil {
		return c11RGFam
	}
	text := []byte("@HD\tVN:1.6\n@RG\tID:g1\tPU:unit1\tLB:lib1\n@PG\tID:p1\tPN:tool\n")
	hdr := oracle.EncodeBAMHeader(text, nil)
	val := func(tag string, match string) [][]byte {
		t := []byte(tag)
		z := func(s string) []byte { return append(append(append([]byte{}, t...), 'Z'), append([]byte(s), 0)...) }
		return [][]byte{
			nil, // absent
			z(match),
			z("other"),
			z(""),
			append(append([]byte{}, t...), 'A', 'x'),
			append(append([]byte{}, t...), 'c', 0xff),
			append(append([]byte{}, t...), 'S', 1, 0),
			append(append([]byte{}, t...), 'i', 1, 0, 0, 0),
			append(append([]byte{}, t...), 'f', 0, 0, 0x80, 0x3f),
			append(append([]byte{}, t...), 'H', '1', 'A', 0),
			append(append([]byte{}, t...), 'B', 'c', 2, 0, 0, 0, 1, 2),
		}
	}
	rgs, pgs, pus, lbs := val("RG", "g1"), val("PG", "p1"), val("PU", "unit1"), val("LB", "lib1")
	var out [][]byte
	for _, rg := range rgs {
		for _, pg := range pgs[:4] {
			for _, pu := range pus {
				for _, lb := range lbs {
					aux := append(append(append(append([]byte{}, rg...), pg...), pu...), lb...)
					raw := c11AuxBAM(aux)
					out = append(out, append(append([]byte{}, hdr...), raw[len(oracle.EncodeBAMHeader(nil, nil)):]...))
				}
			}
		}
	}
	c11RGFam = out
	return out
}

var c11FieldFam [][]byte

// c11FieldFamily enumerates BAM streams (uncompressed) in which one
// fixed-size field holds a chosen value. Each stream appears six times in a
// row; position mod 6 is the reader variant (Omit mode, rd).
func c11FieldFamily() [][]byte {
	if c11FieldFam != nil {
		return c11FieldFam
	}
	refs := []oracle.RefSpec{{Name: "chr1", Len: 100000}, {Name: "chr2", Len: 5000}}
	text := []byte("@HD\tVN:1.6\n@SQ\tSN:chr1\tLN:100000\n@SQ\tSN:chr2\tLN:5000\n")
	hdr := oracle.EncodeBAMHeader(text, refs)
	tl := 8 + len(text) // offset of n_ref
	recs := []oracle.Rec{
		{Name: "read1", RefID: 0, Pos: 100, MapQ: 30, Flags: 0x63, Cigar: []oracle.CigOp{{Op: 4, Len: 2}, {Op: 0, Len: 8}}, MateRefID: 1, MatePos: 300, TLen: 210,
			Seq: "ACGTACGTAC", Qual: []byte{30, 30, 30, 30, 30, 30, 30, 30, 30, 30}, Aux: []oracle.AuxF{{Tag: [2]byte{'N', 'M'}, Type: 'C', Int: 1}, {Tag: [2]byte{'X', 'S'}, Type: 'Z', Data: []byte("abc")}}},
		{Name: "r", RefID: -1, Pos: -1, Flags: 4, MateRefID: -1, MatePos: -1, Seq: "ACG", Aux: []oracle.AuxF{{Tag: [2]byte{'X', 'B'}, Type: 'B', Sub: 's', Ints: []int64{1, -2, 3}}}},
	}
	var out [][]byte
	put := func(b []byte) {
		for v := 0; v < 6; v++ {
			out = append(out, b)
		}
	}
	vals := func(width int, near ...int) []uint32 {
		vs := []uint32{0, 1, 2, 0x7f, 0x80, 0xff}
		if width >= 2 {
			vs = append(vs, 0x100, 0x7fff, 0x8000, 0xffff)
		}
		if width == 4 {
			vs = append(vs, 0x10000, 0x7fffffff, 0x80000000, 0xffffffff, 0xfffffffe, 0x40000000, 0x20000001, 0x55555556)
		}
		for _, n := range near {
			for d := -2; d <= 2; d++ {
				vs = append(vs, uint32(n+d))
			}
			vs = append(vs, uint32(2*n), uint32(2*n+1), uint32(n/2))
		}
		return vs
	}
	set := func(b []byte, off, width int, v uint32) []byte {
		c := append([]byte(nil), b...)
		for k := 0; k < width; k++ {
			c[off+k] = byte(v >> (8 * uint(k)))
		}
		return c
	}
	for _, rec := range recs {
		enc := oracle.EncodeBAMRecord(rec, true)
		raw := append(append([]byte(nil), hdr...), enc...)
		// a second, well-formed record follows so that reading goes on
		raw = append(raw, oracle.EncodeBAMRecord(recs[1], true)...)
		rlen := len(enc) - 4
		ro := len(hdr) // offset of block_size
		type fld struct{ off, width int }
		fields := []fld{{ro, 4}, {ro + 4, 4}, {ro + 8, 4}, {ro + 12, 1}, {ro + 13, 1}, {ro + 14, 2}, {ro + 16, 2}, {ro + 18, 2}, {ro + 20, 4}, {ro + 24, 4}, {ro + 28, 4}, {ro + 32, 4},
			{4, 4}, {tl, 4}, {tl + 4, 4}, {tl + 4 + 4 + 5, 4}} // l_text, n_ref, l_name, l_ref of chr1
		for _, f := range fields {
			for _, v := range vals(f.width, rlen, len(rec.Seq), len(rec.Name)+1, len(rec.Cigar), len(raw)) {
				if f.width < 4 && v>>(8*uint(f.width)) != 0 {
					continue
				}
				put(set(raw, f.off, f.width, v))
			}
		}
	}
	c11FieldFam = out
	return out
}

var c11AuxTextFam [][]byte

// c11AuxTextFamily enumerates SAM aux field texts by structure: every type
// byte and every array subtype byte against a set of values.
func c11AuxTextFamily() [][]byte {
	if c11AuxTextFam != nil {
		return c11AuxTextFam
	}
	var out [][]byte
	vals := []string{"", "0", "1", "-1", "255", "256", "65536", "4294967296", "-2147483649", "1.5", "1e400", "x", "ab cd", "1A2B", "1A2", "zz", "\t"}
	for t := 0; t < 256; t++ {
		for _, v := range vals {
			out = append(out, []byte("XX:"+string([]byte{byte(t)})+":"+v))
		}
	}
	lists := []string{"", ",", ",1", ",1,2", ",-1", ",1.5", ",x", ",300", ",70000", ",99999999999", ",1,", ",,1"}
	for s := 0; s < 256; s++ {
		for _, l := range lists {
			out = append(out, []byte("XX:B:"+string([]byte{byte(s)})+l))
		}
	}
	c11AuxTextFam = out
	return out
}

var c11AuxFam [][]byte

// c11AuxFamily enumerates aux field byte strings by structure.
func c11AuxFamily() [][]byte {
	if c11AuxFam != nil {
		return c11AuxFam
	}
	var out [][]byte
	add := func(b []byte) {
		out = append(out, append([]byte(nil), b...))
		// and followed by a well-formed field, so that parsing goes on
		out = append(out, append(append([]byte(nil), b...), 'Y', 'Y', 'c', 1))
	}
	le32 := func(v uint32) []byte { return []byte{byte(v), byte(v >> 8), byte(v >> 16), byte(v >> 24)} }
	payloads := [][]byte{nil, {1}, {1, 2}, {1, 2, 3, 4}, {1, 2, 3, 4, 5, 6, 7, 8}, []byte("ab\x00"), []byte("ab"), []byte("1A\x00"), []byte("1\x00"), []byte("zz\x00"), {0}}
	for t := 0; t < 256; t++ {
		for _, p := range payloads {
			add(append([]byte{'X', 'X', byte(t)}, p...))
		}
	}
	size := map[byte]int{'c': 1, 'C': 1, 's': 2, 'S': 2, 'i': 4, 'I': 4, 'f': 4}
	counts := []uint32{0, 1, 2, 3, 4, 7, 8, 9, 16, 0x7fffffff, 0x80000000, 0xffffffff, 0x40000000, 0x20000001}
	for s := 0; s < 256; s++ {
		for _, n := range counts {
			hd := append([]byte{'X', 'X', 'B', byte(s)}, le32(n)...)
			sz := size[byte(s)]
			if sz == 0 {
				sz = 1
			}
			exact := 0
			if n <= 16 {
				exact = int(n) * sz
			}
			for _, l := range []int{exact, exact - 1, 0, exact + 3} {
				if l < 0 {
					continue
				}
				add(append(append([]byte(nil), hd...), make([]byte, l)...))
			}
		}
	}
	c11AuxFam = out
	return out
}

// c11AuxBAM is an uncompressed BAM stream: empty header, one unmapped record
// whose aux bytes are aux.
func c11AuxBAM(aux []byte) []byte {
	raw := oracle.EncodeBAMHeader(nil, nil)
	name := "r\x00"
	le32 := func(v int32) []byte { return []byte{byte(v), byte(v >> 8), byte(v >> 16), byte(v >> 24)} }
	var rec []byte
	rec = append(rec, le32(-1)...)                    // refID
	rec = append(rec, le32(-1)...)                    // pos
	rec = append(rec, byte(len(name)), 0, 0x48, 0x12) // l_read_name, mapq, bin 4680
	rec = append(rec, 0, 0, 4, 0)                     // n_cigar_op, flag (unmapped)
	rec = append(rec, le32(0)...)                     // l_seq
	rec = append(rec, le32(-1)...)                    // next refID
	rec = append(rec, le32(-1)...)                    // next pos
	rec = append(rec, le32(0)...)                     // tlen
	rec = append(rec, name...)
	rec = append(rec, aux...)
	raw = append(raw, le32(int32(len(rec)))...)
	return append(raw, rec...)
}

// stepReader counts underlying reads and refuses to go on beyond a bound.
type stepReader struct {
	r     io.Reader
	n     int
	bound int
	over  bool
}

func (s *stepReader) Read(p []byte) (int, error) {
	s.n++
	if s.n > s.bound {
		s.over = true
		return 0, io.ErrNoProgress
	}
	return s.r.Read(p)
}

// stepSeeker is a stepReader over a seekable source.
type stepSeeker struct {
	*stepReader
	rs io.ReadSeeker
}

func (s stepSeeker) Seek(off int64, whence int) (int64, error) { return s.rs.Seek(off, whence) }

func newStepSeeker(b []byte) stepSeeker {
	br := bytes.NewReader(b)
	return stepSeeker{&stepReader{r: br, bound: 64*len(b) + 4096}, br}
}

// memberStarts returns the offsets in b that look like the start of a BGZF member.
func memberStarts(b []byte) []int64 {
	var out []int64
	for i := 0; i+4 <= len(b) && len(out) < 12; i++ {
		if b[i] == 0x1f && b[i+1] == 0x8b && b[i+2] == 8 {
			out = append(out, int64(i))
		}
	}
	return out
}

func newStep(b []byte) *stepReader {
	return &stepReader{r: bytes.NewReader(b), bound: 64*len(b) + 1024}
}

// crasherCorpus extracts the string literals of `var fuzzCrashers` from a test file.
func crasherCorpus(path string) [][]byte {
	var out [][]byte
	fs := token.NewFileSet()
	f, err := parser.ParseFile(fs, path, nil, 0)
	if err != nil {
		return nil
	}
	ast.Inspect(f, func(n ast.Node) bool {
		vs, ok := n.(*ast.ValueSpec)
		if !ok || len(vs.Names) != 1 || vs.Names[0].Name != "fuzzCrashers" {
			return true
		}
		ast.Inspect(vs, func(m ast.Node) bool {
			if bl, ok := m.(*ast.BasicLit); ok && bl.Kind == token.STRING {
				if s, err := strconv.Unquote(bl.Value); err == nil {
					out = append(out, []byte(s))
				}
			}
			return true
		})
		return false
	})
	return out
}

func repoRoot() string {
	if r := os.Getenv("VERIF_REPO"); r != "" {
		return r
	}
	return "/repo"
}

// ---- valid seeds per entry point ----

func c11BamPayload(rng *rand.Rand) ([]byte, []oracle.RefSpec) {
	nref := rng.Intn(4)
	refs := gen.RandRefs(rng, nref)
	h := mkHeader(rng, refs, true)
	text, _ := h.MarshalText()
	raw := oracle.EncodeBAMHeader(text, refs)
	for i, n := 0, rng.Intn(5); i < n; i++ {
		raw = append(raw, oracle.EncodeBAMRecord(gen.RandRec(rng, gen.RecOpts{NRefs: nref, NoBigCig: true, MaxSeq: 60}, i), true)...)
	}
	return raw, refs
}

func wrapBGZF(rng *rand.Rand, raw []byte) []byte {
	var cuts []int
	for k := rng.Intn(3); k > 0 && len(raw) > 1; k-- {
		cuts = append(cuts, 1+rng.Intn(len(raw)-1))
	}
	sortInts(cuts)
	return gen.FileFromData(rng, raw, cuts, 0, rng.Intn(3) != 0).Bytes
}

func sortInts(a []int) {
	for i := 1; i < len(a); i++ {
		for j := i; j > 0 && a[j] < a[j-1]; j-- {
			a[j], a[j-1] = a[j-1], a[j]
		}
	}
}

func c11SamLine(rng *rand.Rand) ([]byte, []oracle.RefSpec) {
	refs := gen.RandRefs(rng, 1+rng.Intn(3))
	rec := gen.RandRec(rng, gen.RecOpts{NRefs: len(refs), SAMSafe: true, NoBigCig: true, MaxSeq: 50}, 0)
	return []byte(oracle.FormatSAM(rec, refNamer(refs), rng.Intn(2))), refs
}

func c11Index(rng *rand.Rand, kind string) []byte {
	ic, cls, _ := newIdxCase(rng, kind, rng.Intn(len(csiGeoms)), false)
	if cls != "" {
		return nil
	}
	// keep the encodings small (a few KB): fold positions into the first 2^20 bases
	lim := 1 << 20
	if m := ic.set.Max() - 2; m < lim {
		lim = m
	}
	for i := range ic.set.Recs {
		r := &ic.set.Recs[i]
		if r.Ref < 0 {
			continue
		}
		l := r.End - r.Start
		r.Start %= lim
		if l > lim-r.Start {
			l = lim - r.Start
		}
		if l < 1 {
			l = 1
		}
		r.End = r.Start + l
	}
	sort.SliceStable(ic.set.Recs, func(a, b int) bool {
		x, y := ic.set.Recs[a], ic.set.Recs[b]
		if (x.Ref < 0) != (y.Ref < 0) {
			return y.Ref < 0
		}
		if x.Ref != y.Ref {
			return x.Ref < y.Ref
		}
		return x.Start < y.Start
	})
	x, cls, _ := ic.build(rng)
	if cls != "" || x == nil {
		return nil
	}
	b, _ := x.write()
	return b
}

// c11Cram builds a CRAM stream with valid CRCs. With hostile set, individual
// fields lie (declared lengths off by a few, negative or large sizes, unknown
// methods, wrong counts) while the checksums stay valid, so that the lie
// reaches the code behind the CRC checks.
func c11Cram(rng *rand.Rand, hostile bool) []byte {
	lie := func(v int32) int32 {
		if !hostile || rng.Intn(3) != 0 {
			return v
		}
		switch rng.Intn(8) {
		case 0:
			return v + 1
		case 1:
			return v - 1
		case 2:
			return v + int32(1+rng.Intn(4))
		case 3:
			return -1
		case 4:
			return 0
		case 5:
			return -v
		case 6:
			return v + 100
		}
		return int32(rng.Intn(1 << 16))
	}
	var f bytes.Buffer
	f.WriteString("CRAM")
	f.Write([]byte{3, 0})
	f.Write(make([]byte, 20))
	i8 := func(v int32) []byte { b, _ := oracle.ITF8Encode(v); return b }
	for ci, nc := 0, 1+rng.Intn(3); ci < nc; ci++ {
		var blocks bytes.Buffer
		nb := rng.Intn(3)
		for bi := 0; bi < nb; bi++ {
			var b bytes.Buffer
			method := byte(0)
			if hostile && rng.Intn(4) == 0 {
				method = byte(rng.Intn(7))
			}
			typ := byte([]int{0, 1, 2, 4, 5}[rng.Intn(5)])
			var payload []byte
			switch typ {
			case 0: // file header: length prefixed SAM header text
				t := []byte("@HD\tVN:1.6\n@SQ\tSN:chr1\tLN:1000\n")
				if hostile && rng.Intn(3) == 0 {
					t = t[:rng.Intn(len(t))]
				}
				dl := lie(int32(len(t)))
				payload = append([]byte{byte(dl), byte(dl >> 8), byte(dl >> 16), byte(dl >> 24)}, t...)
				if hostile && rng.Intn(6) == 0 {
					payload = payload[:rng.Intn(5)] // shorter than its own length field
				}
			case 2: // slice header
				payload = append(payload, i8(0)...)
				payload = append(payload, i8(1)...)
				payload = append(payload, i8(100)...)
				payload = append(payload, i8(2)...)
				payload = append(payload, oracle.LTF8Encode(7)...)
				payload = append(payload, i8(1)...)
				payload = append(payload, i8(1)...)
				payload = append(payload, i8(3)...)
				payload = append(payload, i8(-1)...)
				payload = append(payload, make([]byte, 16)...)
			default:
				payload = make([]byte, rng.Intn(60))
				rng.Read(payload)
			}
			b.WriteByte(method)
			b.WriteByte(typ)
			b.Write(i8(int32(bi)))
			cs := int32(len(payload))
			rs := cs
			if hostile && rng.Intn(6) == 0 {
				cs = lie(cs)
				if method == 0 && rng.Intn(2) == 0 {
					rs = cs
				}
			}
			b.Write(i8(cs))
			b.Write(i8(rs))
			b.Write(payload)
			var crc [4]byte
			putCRC(crc[:], b.Bytes())
			b.Write(crc[:])
			blocks.Write(b.Bytes())
		}
		var h bytes.Buffer
		h.Write([]byte{byte(blocks.Len()), byte(blocks.Len() >> 8), byte(blocks.Len() >> 16), byte(blocks.Len() >> 24)})
		h.Write(i8(int32(rng.Intn(5))))
		h.Write(i8(int32(rng.Intn(100000))))
		h.Write(i8(int32(rng.Intn(100000))))
		h.Write(i8(int32(rng.Intn(1000))))
		h.Write(oracle.LTF8Encode(rng.Int63n(1 << 40)))
		h.Write(oracle.LTF8Encode(rng.Int63n(1 << 40)))
		h.Write(i8(lie(int32(nb))))
		nl := rng.Intn(4)
		h.Write(i8(lie(int32(nl))))
		for k := 0; k < nl; k++ {
			h.Write(i8(int32(rng.Intn(1000))))
		}
		if hostile && rng.Intn(5) == 0 {
			// a length that lies: negative, and in particular minus the size
			// of this very header (a reader that skips by seeking lands on
			// the container again)
			hb := h.Bytes()
			bl := []int32{-int32(len(hb) + 4), -1, -int32(len(hb)), int32(blocks.Len()) + 7, 0x7fffffff}[rng.Intn(5)]
			hb[0], hb[1], hb[2], hb[3] = byte(bl), byte(bl>>8), byte(bl>>16), byte(bl>>24)
		}
		var crc [4]byte
		putCRC(crc[:], h.Bytes())
		h.Write(crc[:])
		f.Write(h.Bytes())
		f.Write(blocks.Bytes())
	}
	return f.Bytes()
}

// ---- consumers: what is done with values returned without error ----

func consumeRecord(rec *sam.Record, h *sam.Header) {
	_ = rec.String()
	for f := 0; f < 3; f++ {
		rec.MarshalSAM(f)
	}
	_, _, _, _, _ = rec.End(), rec.Len(), rec.Bin(), rec.Strand(), rec.RefID()
	rec.Cigar.IsValid(rec.Seq.Length)
	rec.Cigar.Lengths()
	_ = rec.Cigar.String()
	_ = sam.IsValidRecord(rec)
	for _, a := range rec.AuxFields {
		_, _, _, _ = a.Tag(), a.Type(), a.Kind(), a.Value()
		_ = a.String()
	}
	if rec.Seq.Length <= 1<<20 {
		rec.Seq.Expand()
	}
	if h != nil {
		var buf bytes.Buffer
		if bw, err := bam.NewWriter(&buf, h, 1); err == nil {
			bw.Write(rec)
			bw.Close()
		}
		h.Validate(rec)
	}
	c := bgzf.Chunk{Begin: bgzf.Offset{File: 100}, End: bgzf.Offset{File: 100, Block: 50}}
	var bi bam.Index
	bi.Add(rec, c)
	if rec.Ref != nil {
		ci := csi.New(14, 5)
		ci.Add(rec, c, true, true)
	}
}

func consumeHeader(h *sam.Header) {
	h.MarshalText()
	h.MarshalBinary()
	c := h.Clone()
	c.MarshalText()
	for _, r := range h.Refs() {
		_, _, _ = r.Name(), r.Len(), r.ID()
		_ = r.String()
		r.Tags(func(sam.Tag, string) {})
		_ = r.MD5()
		_ = r.URI()
	}
	for _, g := range h.RGs() {
		_ = g.String()
		g.Tags(func(sam.Tag, string) {})
	}
	for _, p := range h.Progs() {
		_ = p.String()
		p.Tags(func(sam.Tag, string) {})
	}
	h.Tags(func(sam.Tag, string) {})
}

func consumeIndex(x anyIndex) {
	n := x.numRefs()
	_, isCSI := x.(*csiIdx)
	for i := 0; i < n && i < 64; i++ {
		x.stats(i)
		if isCSI {
			// the geometry of a decoded CSI is not exposed: keep to small positions
			x.query(i, 0, 1<<10)
			x.query(i, 15, 17)
			x.query(i, 0, 1)
			continue
		}
		x.query(i, 0, 1<<20)
		x.query(i, 1<<14-1, 1<<14+1)
		x.query(i, 1<<28, 1<<29-2)
	}
	if n > 0 {
		// empty and reversed intervals: nothing overlaps them, the call returns
		x.query(0, 0, 0)
		x.query(0, 7, 7)
		x.query(0, 100, 3)
		x.query(0, -5, 2)
	}
	if _, isBai := x.(*baiIdx); !isBai && n < 60 {
		x.query(n, 0, 10) // a reference beyond the last
	}
	x.unmapped()
	x.merge(index.Adjacent)
	x.write()
	x.merge(index.Squash)
}

// ---- one decode ----

// c11Decode runs entry point e on input in (aux carries a header etc.).
func c11Decode(e string, in []byte, variant int) (reads int, over bool) {
	switch e {
	case "bgzf":
		if variant >= 3 {
			// seekable source: Seek to everything that looks like a member
			// start, forwards and backwards, letting read-ahead run first,
			// and read a little at each place
			st := newStepSeeker(in)
			r, err := bgzf.NewReader(st, 1+variant%3)
			if err == nil {
				buf := make([]byte, 300)
				starts := memberStarts(in)
				for k := 0; k < 2*len(starts); k++ {
					o := starts[k%len(starts)]
					if k >= len(starts) {
						o = starts[2*len(starts)-1-k]
					}
					for y := 0; y < 3; y++ {
						runtime.Gosched()
					}
					if r.Seek(bgzf.Offset{File: o, Block: uint16(k % 3)}) == nil {
						r.Read(buf)
						r.LastChunk()
					}
				}
				r.Close()
			}
			return st.n, st.over
		}
		st := newStep(in)
		r, err := bgzf.NewReader(st, 1+variant%2)
		if err == nil {
			buf := make([]byte, 4096)
			for i := 0; i < 100000; i++ {
				if _, err := r.Read(buf); err != nil {
					break
				}
			}
			r.Close()
		}
		return st.n, st.over
	case "bam", "bam-aux", "bam-fields", "bam-rg":
		st := newStep(in)
		br, err := bam.NewReader(st, 1+variant/3)
		if err == nil {
			br.Omit(variant % 3)
			h := br.Header()
			consumeHeader(h)
			if refs := h.Refs(); len(refs) > 0 && len(in)%5 == 0 {
				// the header handed out is the caller's to edit: records on a
				// reference that is gone must give an error, not a panic
				h.RemoveReference(refs[len(refs)-1])
			}
			for i := 0; i < 1000; i++ {
				rec, err := br.Read()
				if err != nil {
					break
				}
				consumeRecord(rec, h)
			}
			br.Close()
		}
		return st.n, st.over
	case "sam-reader":
		st := newStep(in)
		sr, err := sam.NewReader(st)
		if err == nil {
			consumeHeader(sr.Header())
			for i := 0; i < 1000; i++ {
				rec, err := sr.Read()
				if err != nil {
					break
				}
				consumeRecord(rec, sr.Header())
			}
		}
		return st.n, st.over
	case "unmarshal-sam":
		var rec sam.Record
		if variant%2 == 0 {
			if rec.UnmarshalSAM(nil, in) == nil {
				consumeRecord(&rec, nil)
			}
		} else {
			h := c11Hdr
			if rec.UnmarshalSAM(h, in) == nil {
				consumeRecord(&rec, h)
			}
		}
	case "parse-aux", "aux-text":
		if a, err := sam.ParseAux(in); err == nil {
			_, _, _, _ = a.Tag(), a.Type(), a.Kind(), a.Value()
			_ = a.String()
			// and inside a record, through the formatters and the BAM writer
			rec := sam.Record{Name: "r", Pos: -1, MatePos: -1, Flags: sam.Unmapped, AuxFields: sam.AuxFields{a}}
			consumeRecord(&rec, c11EmptyHdr)
		}
	case "parse-cigar":
		if c, err := sam.ParseCigar(in); err == nil {
			c.IsValid(10)
			c.Lengths()
			_ = c.String()
		}
	case "header-text":
		h, _ := sam.NewHeader(nil, nil)
		if h.UnmarshalText(in) == nil {
			consumeHeader(h)
		}
	case "header-binary":
		h, _ := sam.NewHeader(nil, nil)
		if h.UnmarshalBinary(in) == nil {
			consumeHeader(h)
		}
	case "bai":
		st := newStep(in)
		if idx, err := bam.ReadIndex(st); err == nil {
			// (whatever came back without an error goes to the accessors,
			// also a nil index)
			n := idx.NumRefs()
			if n > 64 {
				n = 64
			}
			consumeIndex(&baiIdx{idx: idx, refs: newRefs(n + 1)})
		}
		return st.n, st.over
	case "csi":
		st := newStep(in)
		if idx, err := csi.ReadFrom(st); err == nil {
			consumeIndex(&csiIdx{idx: idx})
		}
		return st.n, st.over
	case "tabix":
		st := newStep(in)
		if idx, err := tabix.ReadFrom(st); err == nil {
			names := append([]string(nil), idx.Names()...)
			for len(names) < 66 {
				names = append(names, "none")
			}
			consumeIndex(&tbxIdx{idx: idx, names: names})
			idx.IDs()
		}
		return st.n, st.over
	case "fai-read":
		st := newStep(in)
		if idx, err := fai.ReadFrom(st); err == nil && idx != nil {
			var out bytes.Buffer
			fai.WriteTo(&out, idx)
			f := fai.NewFile(bytes.NewReader(c11Fasta), idx)
			k := 0
			for name, rec := range idx {
				if k++; k > 8 {
					break
				}
				if rec.Length > 1<<16 || rec.Length < 0 {
					continue // reading a huge declared length is not a decode question
				}
				if sq, err := f.Seq(name); err == nil {
					readWithBuf(sq, 64, 1<<20)
				}
				if sq, err := f.SeqRange(name, 0, 1); err == nil {
					readWithBuf(sq, 7, 1<<20)
				}
			}
		}
		return st.n, st.over
	case "fai-new":
		st := newStep(in)
		if idx, err := fai.NewIndex(st); err == nil && idx != nil {
			var out bytes.Buffer
			fai.WriteTo(&out, idx)
			f := fai.NewFile(bytes.NewReader(in), idx)
			for name := range idx {
				if sq, err := f.Seq(name); err == nil {
					readWithBuf(sq, 64, len(in)+10)
				}
			}
		}
		return st.n, st.over
	case "cram":
		// a plain source or (odd variants) one that can seek; a container
		// takes at least 15 bytes and a block at least 9, so more of either
		// than the input can hold means the walk does not terminate
		st := newStep(in)
		var src io.Reader = st
		if variant%2 == 1 {
			ss := newStepSeeker(in)
			st, src = ss.stepReader, ss
		}
		if cr, err := cram.NewReader(src); err == nil {
			nc := 0
			for cr.Next() {
				if nc++; nc > len(in)/15+2 {
					return st.n, true
				}
				ct := cr.Container()
				nb := 0
				for ct.Next() {
					if nb++; nb > len(in)/9+2 {
						return st.n, true
					}
					v, err := ct.Block().Value()
					if h, ok := v.(*sam.Header); ok && err == nil {
						consumeHeader(h)
					}
				}
				ct.Err()
			}
			cr.Err()
		}
		return st.n, st.over
	case "tf8":
		itf8.Decode(in)
		ltf8.Decode(in)
	}
	return 0, false
}

var c11Hdr = func() *sam.Header {
	h, _ := sam.NewHeader([]byte("@HD\tVN:1.6\n@SQ\tSN:chr1\tLN:536870911\n@SQ\tSN:chr2\tLN:1000\n@SQ\tSN:ref_a0.x\tLN:10\n"), nil)
	return h
}()

var c11Fasta = []byte(">a desc\nACGTACGTAC\nACGT\n>b\nTTTT\n")

func c11Run(c core.Case) *core.Result {
	r := core.NewResult()
	rng := c.Rng()
	e := c.Kind
	n := c.Int("n")
	// valid inputs for this entry point
	var valid [][]byte
	text := false
	switch e {
	case "bgzf":
		for i := 0; i < 4; i++ {
			valid = append(valid, gen.RandFile(rng, gen.FileOpts{MaxBlocks: 4, SmallOnly: true, ExtraField: true}).Bytes)
		}
		valid = append(valid, crasherCorpus(repoRoot()+"/bgzf/bgzf_test.go")...)
	case "bam":
		for i := 0; i < 4; i++ {
			p, _ := c11BamPayload(rng)
			valid = append(valid, p)
		}
	case "aux-text":
		text = true
		fam := c11AuxTextFamily()
		lo := c.Int("part") * c11AuxPart
		for i := lo; i < lo+c11AuxPart && i < len(fam); i++ {
			valid = append(valid, fam[i])
		}
		n = len(valid)
	case "bam-rg":
		fam := c11RGFamily()
		lo := c.Int("part") * c11AuxPart
		for i := lo; i < lo+c11AuxPart && i < len(fam); i++ {
			valid = append(valid, fam[i])
		}
		n = len(valid)
	case "bam-fields":
		fam := c11FieldFamily()
		lo := c.Int("part") * c11AuxPart
		for i := lo; i < lo+c11AuxPart && i < len(fam); i++ {
			valid = append(valid, fam[i])
		}
		n = len(valid)
	case "bam-aux":
		fam := c11AuxFamily()
		lo := c.Int("part") * c11AuxPart
		for i := lo; i < lo+c11AuxPart && i < len(fam); i++ {
			valid = append(valid, c11AuxBAM(fam[i]))
		}
		n = len(valid)
	case "sam-reader":
		text = true
		for i := 0; i < 4; i++ {
			l, refs := c11SamLine(rng)
			h := mkHeader(rng, refs, true)
			t, _ := h.MarshalText()
			if rng.Intn(2) == 0 {
				t = nil
			}
			l2, _ := c11SamLine(rng)
			valid = append(valid, append(append(append(t, l...), '\n'), append(l2, '\n')...))
		}
	case "unmarshal-sam":
		text = true
		for i := 0; i < 6; i++ {
			l, _ := c11SamLine(rng)
			valid = append(valid, l)
		}
	case "parse-aux":
		text = true
		for i := 0; i < 12; i++ {
			valid = append(valid, []byte(oracle.FormatAux(gen.RandAux(rng, 0, true, i))))
		}
	case "parse-cigar":
		text = true
		valid = [][]byte{[]byte("*"), []byte("10M"), []byte("5H3S10M2I4D6N1P7=8X2B3S5H"), []byte("268435455M"), []byte("0M"), []byte("1000000000000M")}
	case "header-text":
		text = true
		for i := 0; i < 6; i++ {
			t, _ := c07Header(rng).MarshalText()
			valid = append(valid, t)
		}
	case "header-binary":
		for i := 0; i < 6; i++ {
			b, _ := c07Header(rng).MarshalBinary()
			valid = append(valid, b)
		}
		for _, cr := range crasherCorpus(repoRoot() + "/bam/bam_test.go") {
			valid = append(valid, cr)
		}
	case "bai", "csi", "tabix":
		for i := 0; i < 4; i++ {
			if b := c11Index(rng, e); b != nil {
				valid = append(valid, b)
			}
		}
		// an index of no references at all
		switch e {
		case "bai":
			valid = append(valid, []byte("BAI\x01\x00\x00\x00\x00"), []byte("BAI\x01\x00\x00\x00\x00\x05\x00\x00\x00\x00\x00\x00\x00"))
		case "tabix":
			valid = append(valid, append([]byte("TBI\x01\x00\x00\x00\x00"), make([]byte, 28)...))
		case "csi":
			valid = append(valid, []byte("CSI\x01\x0e\x00\x00\x00\x05\x00\x00\x00\x00\x00\x00\x00\x00\x00\x00\x00"))
		}
	case "fai-read":
		text = true
		valid = [][]byte{[]byte("a\t14\t8\t10\t11\nb\t4\t27\t4\t5\n"), []byte("chr1\t100\t6\t60\t61\n"), []byte("x\t0\t0\t0\t0\n")}
	case "fai-new":
		text = true
		for i := 0; i < 5; i++ {
			d, _, _ := c19File(rng)
			valid = append(valid, d)
		}
	case "cram":
		for i := 0; i < 4; i++ {
			valid = append(valid, c11Cram(rng, false))
		}
		for i := 0; i < 40; i++ {
			valid = append(valid, c11Cram(rng, true)) // checksum-valid streams whose fields lie
		}
	case "tf8":
		for i := 0; i < 8; i++ {
			b := make([]byte, rng.Intn(10))
			rng.Read(b)
			valid = append(valid, b)
		}
	}
	if len(valid) == 0 {
		r.Violate("harness|no-valid-inputs", "no valid inputs for %s", e)
		return r
	}
	seen := map[string]bool{}
	var nt, judged int64
	pristineOK := 0
	for i := 0; i < n && len(r.Viol) < 6; i++ {
		base := valid[rng.Intn(len(valid))]
		other := valid[rng.Intn(len(valid))]
		in := base
		mutated := i >= len(valid)
		if !mutated {
			in = valid[i]
		} else if text {
			in = gen.MutateText(rng, base, other)
		} else {
			in = gen.MutateBinary(rng, base, other)
		}
		data := in
		if e == "aux-text" && !seen[string(in)] {
			seen[string(in)] = true
			nt++
		}
		if e == "bam-fields" {
			data = gen.FileFromData(rng, in, nil, 0, true).Bytes
			nt++ // every (stream, variant) pair is distinct by construction
		}
		if e == "bam-aux" || e == "bam-rg" {
			data = gen.FileFromData(rng, in, nil, 0, true).Bytes
			if !seen[string(in)] {
				seen[string(in)] = true
				nt++
			}
		}
		if e == "bam" {
			if mutated && rng.Intn(5) == 0 {
				data = gen.MutateBinary(rng, wrapBGZF(rng, base), nil) // framing-level mutation
			} else {
				data = wrapBGZF(rng, in)
			}
		}
		if mutated && !seen[string(data)] {
			seen[string(data)] = true
			nt++
		}
		variant := rng.Intn(6)
		if e == "bam-aux" || e == "bam-rg" {
			variant = 3 * (variant % 2) // aux fields are only parsed without Omit
		}
		if e == "bam-fields" {
			variant = (c.Int("part")*c11AuxPart + i) % 6
		}
		if from, ok := c.P["from"]; ok && int64(i) < from {
			continue
		}
		if to, ok := c.P["to"]; ok && to >= 0 && int64(i) >= to {
			continue
		}
		judged++
		fmt.Fprintf(os.Stderr, "@input %d %s %x\n", i, e, trunc(data, 96))
		var reads int
		var over bool
		t0 := time.Now()
		pv, st := core.Recover(func() { reads, over = c11Decode(e, data, variant) })
		if d := time.Since(t0); d > 200*time.Millisecond && os.Getenv("VERIF_SLOW") != "" {
			fmt.Fprintf(os.Stderr, "SLOW %v input %d len %d\n", d, i, len(data))
			os.WriteFile(fmt.Sprintf("/tmp/slow-%s-%d", e, i), data, 0o644)
		}
		if pv != nil {
			msg := fmt.Sprint(pv)
			fn := core.TopLibFrame(st)
			if strings.Contains(msg, "out of memory") || strings.Contains(msg, "makeslice: len out of range") && false {
				r.Count("oom_not_judged", 1)
				continue
			}
			r.Violate(fmt.Sprintf("panic|%s|%s|%s", e, fn, core.PanicClass(msg)), "entry %s variant %d panicked: %v\ninput (%d bytes): %q\nstack:\n%s", e, variant, pv, len(data), trunc(data, 300), firstN(st, 1800))
			core.ReportEarly(r.Viol[len(r.Viol)-1], judged)
			continue
		}
		if over {
			r.Violate(fmt.Sprintf("unbounded-reads|%s", e), "entry %s made more than %d underlying reads on a %d byte input: %q", e, 64*len(data)+1024, len(data), trunc(data, 300))
		}
		_ = reads
		if !mutated {
			pristineOK++
		}
	}
	r.Evals, r.DistinctNT = judged, nt
	if c.P["from"] > 0 || c.P["to"] > 0 {
		r.DistinctNT = 0 // already counted approximately by the first attempt's siblings; stay conservative
	}
	r.FP = core.Hash(e, c.Seed, c.P["from"], c.P["to"])
	r.Nontrivial = true
	r.Count("inputs_"+e, judged)
	r.Add("entry_points", e)
	r.Sample = map[string]any{"entry": e, "valid_inputs": len(valid), "example_valid_input": string(trunc(valid[0], 120))}
	return r
}

func firstN(s string, n int) string {
	if len(s) > n {
		return s[:n]
	}
	return s
}
