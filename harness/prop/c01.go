package prop

import (
	"bytes"
	"fmt"
	"strings"

	"github.com/biogo/hts/bgzf"

	"verif/core"
	"verif/gen"
	"verif/mon"
	"verif/oracle"
)

func init() {
	core.Register(&core.Prop{
		ID:    "C01",
		Level: "exploration",
		Rule: "a case is (write script, level, wc, rd, source-reader kind, read pattern, GOMAXPROCS, hook level). The script (Write lengths around 0/1/BlockSize±1/multi-block, fill level of the active block steered to 0, 1 and BlockSize-1, Flush and Wait interspersed; zeros/text/random/0xFF content) is run on the real Writer into a buffer; the buffer is read back with the real Reader using a seeded mix of Read(n) and ReadByte; the model is the concatenation of the payloads. " +
			"Every Write must return (len,nil), Flush/Wait/Close nil, every read step must return exactly the model's bytes, a short Read only at the end with io.EOF. " +
			"'limit' cases put a full incompressible block behind a padded header so that the member lands on MaxBlockSize-3..+3: when every writer call returns nil the bytes must read back. A case is non-trivial when the script produces at least 2 data blocks; distinct = distinct (script, configuration) fingerprints. Concurrent configurations are repeated under the race detector, and with the widening hook (yields/sleeps at the library's suspension points); the number of distinct hook-trace shapes is reported as observed interleavings.",
		Floor:       map[string]int{"quick": 150, "thorough": 2000},
		Plan:        c01Plan,
		Run:         c01Run,
		Assumptions: []string{"schedules are sampled (hook widening, GOMAXPROCS 1/2/16, race detector), not enumerated"},
		TimeoutS:    map[string]int{"quick": 900, "thorough": 3400},
	})
}

func c01Plan(seed int64, tier string) []core.Case {
	n := 420
	if tier == "thorough" {
		n = 6000
	}
	wcs := []int64{0, 1, 2, 3, 4, 8}
	rds := []int64{0, 1, 2, 3, 8}
	var cs []core.Case
	for i := 0; i < n; i++ {
		s := core.SubSeed(seed, "c01", i)
		rng := core.Case{Seed: s}.Rng()
		c := core.Case{Kind: "roundtrip", Seed: s, P: map[string]int64{
			"wc":    wcs[rng.Intn(len(wcs))],
			"rd":    rds[rng.Intn(len(rds))],
			"level": int64(rng.Intn(11) - 1),
			"src":   int64(rng.Intn(4)),
			"hook":  int64(rng.Intn(4)),
			"procs": []int64{0, 0, 1, 2, 16}[rng.Intn(5)],
		}}
		// every tenth case (quick) / tenth (thorough) also runs under -race when it is concurrent
		if i%7 == 0 && (c.P["wc"] != 1 || c.P["rd"] != 1) {
			c.Race = true
		}
		cs = append(cs, c)
	}
	// limit: a full incompressible block behind a padded header, so that the
	// member lands on MaxBlockSize-3..+3; either a call fails or it reads back.
	for _, level := range []int64{0, 1, -1} {
		for pad := int64(0); pad < 7; pad++ {
			for _, wc := range []int64{1, 3} {
				cs = append(cs, core.Case{Kind: "limit", Seed: core.SubSeed(seed, "c01limit", level, pad, wc),
					P: map[string]int64{"level": level, "pad": pad, "wc": wc, "rd": []int64{0, 1, 3}[int(pad+wc)%3]}})
			}
		}
	}
	return cs
}

// c01Limit writes some data, one full incompressible block whose member is
// padded (header comment) to land around MaxBlockSize, and more data. When
// every writer call returns nil the bytes must read back.
func c01Limit(r *core.Result, c core.Case) *core.Result {
	rng := c.Rng()
	level, wc, rd := c.Int("level"), c.Int("wc"), c.Int("rd")
	full := make([]byte, gen.BlockSize)
	rng.Read(full)
	var probe bytes.Buffer
	pw, _ := bgzf.NewWriterLevel(&probe, level, 1)
	pw.Write(full)
	pw.Close()
	pm, err := oracle.ParseStream(probe.Bytes())
	if err != nil || len(pm) == 0 {
		r.Violate("limit|probe", "cannot parse the probe stream: %v", err)
		return r
	}
	target := oracle.MaxBlockSize - 3 + c.Int("pad")
	pad := target - pm[0].Len - 1
	r.FP = core.Hash("limit", level, target, wc, rd)
	r.Sample = map[string]any{"kind": "limit", "level": level, "wc": wc, "rd": rd, "target_member_len": target, "comment_len": pad}
	if pad < 1 {
		return r
	}
	r.Nontrivial = true
	cfg := fmt.Sprintf("limit wc=%d rd=%d level=%d target member length MaxBlockSize%+d", wc, rd, level, target-oracle.MaxBlockSize)
	head := make([]byte, 1+rng.Intn(300))
	tail := make([]byte, 1+rng.Intn(300))
	gen.Fill(rng, head, 1)
	gen.Fill(rng, tail, 1)
	var out bytes.Buffer
	w, _ := bgzf.NewWriterLevel(&out, level, wc)
	w.Comment = strings.Repeat("x", pad)
	var errs []error
	step := func(_ int, err error) { errs = append(errs, err) }
	step(w.Write(head))
	step(0, w.Flush())
	step(w.Write(full))
	step(0, w.Flush())
	step(w.Write(tail))
	step(0, w.Wait())
	step(0, w.Close())
	for _, e := range errs {
		if e != nil {
			r.Count("limit_writer_reported_error", 1)
			return r // the failure was loud; C08 judges what was left behind
		}
	}
	r.Count("limit_writer_succeeded", 1)
	model := append(append(append([]byte{}, head...), full...), tail...)
	rr, err := bgzf.NewReader(bytes.NewReader(out.Bytes()), rd)
	if err != nil {
		r.Violate("reader|new", "%s: NewReader on the writer's output: %v", cfg, err)
		return r
	}
	cls, detail := readBack(rr, model, rng)
	if cls != "" {
		r.Violate("roundtrip|"+cls, "%s: every writer call returned nil, but %s", cfg, detail)
	}
	rr.Close()
	return r
}

func c01Run(c core.Case) *core.Result {
	r := core.NewResult()
	if c.Kind == "limit" {
		return c01Limit(r, c)
	}
	rng := c.Rng()
	maxTotal := 6 * gen.BlockSize
	script := gen.RandScript(rng, 14, maxTotal)
	payloads := script.Payloads(rng)
	var model []byte
	for _, p := range payloads {
		model = append(model, p...)
	}
	wc, rd, level := c.Int("wc"), c.Int("rd"), c.Int("level")
	cfg := fmt.Sprintf("wc=%d rd=%d level=%d src=%d hook=%d procs=%d", wc, rd, level, c.Int("src"), c.Int("hook"), c.Int("procs"))
	r.FP = core.Hash(script.String(), len(script.Ops), script.Total(), cfg)
	r.Sample = map[string]any{"script": script.String(), "config": cfg, "bytes": len(model)}
	var out bytes.Buffer
	withProcs(c.Int("procs"), func() {
		traced(r, c.Seed, c.Int("hook"), "interleavings", func(t *mon.Tracer) {
			w, err := bgzf.NewWriterLevel(&out, level, wc)
			if err != nil {
				r.Violate("writer|new", "NewWriterLevel(level=%d, wc=%d): %v", level, wc, err)
				return
			}
			if err := runScript(w, script, payloads); err != nil {
				r.Violate("writer|call-error", "%s: %v (script%s)", cfg, err, script.String())
				w.Close()
				return
			}
			if err := w.Close(); err != nil {
				r.Violate("writer|close-error", "%s: Close: %v", cfg, err)
				return
			}
			blocks := t.Count("writer.emit")
			r.Count("data_blocks_written", int64(blocks))
			r.Nontrivial = blocks >= 2
			src := wrapSource(out.Bytes(), c.Int("src"), rng)
			rr, err := bgzf.NewReader(src, rd)
			if err != nil {
				r.Violate("reader|new", "%s: NewReader on the writer's output: %v", cfg, err)
				return
			}
			cls, detail := readBack(rr, model, rng)
			if cls != "" {
				r.Violate("roundtrip|"+cls, "%s script%s: %s", cfg, script.String(), detail)
			}
			if err := rr.Close(); err != nil {
				r.Violate("reader|close-error", "%s: Reader.Close after a clean read: %v", cfg, err)
			}
		})
	})
	r.Count("payload_bytes", int64(len(model)))
	return r
}
