package prop

import (
	"bytes"
	"fmt"

	"github.com/biogo/hts/bgzf"

	"verif/core"
	"verif/gen"
	"verif/mon"
)

func init() {
	core.Register(&core.Prop{
		ID:    "C01",
		Level: "exploration",
		Rule: "a case is (write script, level, wc, rd, source-reader kind, read pattern, GOMAXPROCS, hook level). The script (Write lengths around 0/1/BlockSize±1/multi-block, fill level of the active block steered to 0, 1 and BlockSize-1, Flush and Wait interspersed; zeros/text/random/0xFF content) is run on the real Writer into a buffer; the buffer is read back with the real Reader using a seeded mix of Read(n) and ReadByte; the model is the concatenation of the payloads. " +
			"Every Write must return (len,nil), Flush/Wait/Close nil, every read step must return exactly the model's bytes, a short Read only at the end with io.EOF. " +
			"A case is non-trivial when the script produces at least 2 data blocks; distinct = distinct (script, configuration) fingerprints. Concurrent configurations are repeated under the race detector, and with the widening hook (yields/sleeps at the library's suspension points); the number of distinct hook-trace shapes is reported as observed interleavings.",
		Floor:       map[string]int{"quick": 150, "thorough": 2000},
		Plan:        c01Plan,
		Run:         c01Run,
		Assumptions: []string{"schedules are sampled (hook widening, GOMAXPROCS 1/2/16, race detector), not enumerated"},
		TimeoutS:    map[string]int{"quick": 900, "thorough": 3400},
	})
}

func c01Plan(seed int64, tier string) []core.Case {
	n := 420
	if tier == "thorough" {
		n = 6000
	}
	wcs := []int64{0, 1, 2, 3, 4, 8}
	rds := []int64{0, 1, 2, 3, 8}
	var cs []core.Case
	for i := 0; i < n; i++ {
		s := core.SubSeed(seed, "c01", i)
		rng := core.Case{Seed: s}.Rng()
		c := core.Case{Kind: "roundtrip", Seed: s, P: map[string]int64{
			"wc":    wcs[rng.Intn(len(wcs))],
			"rd":    rds[rng.Intn(len(rds))],
			"level": int64(rng.Intn(11) - 1),
			"src":   int64(rng.Intn(3)),
			"hook":  int64(rng.Intn(4)),
			"procs": []int64{0, 0, 1, 2, 16}[rng.Intn(5)],
		}}
		// every tenth case (quick) / tenth (thorough) also runs under -race when it is concurrent
		if i%7 == 0 && (c.P["wc"] != 1 || c.P["rd"] != 1) {
			c.Race = true
		}
		cs = append(cs, c)
	}
	return cs
}

func c01Run(c core.Case) *core.Result {
	r := core.NewResult()
	rng := c.Rng()
	maxTotal := 6 * gen.BlockSize
	script := gen.RandScript(rng, 14, maxTotal)
	payloads := script.Payloads(rng)
	var model []byte
	for _, p := range payloads {
		model = append(model, p...)
	}
	wc, rd, level := c.Int("wc"), c.Int("rd"), c.Int("level")
	cfg := fmt.Sprintf("wc=%d rd=%d level=%d src=%d hook=%d procs=%d", wc, rd, level, c.Int("src"), c.Int("hook"), c.Int("procs"))
	r.FP = core.Hash(script.String(), len(script.Ops), script.Total(), cfg)
	r.Sample = map[string]any{"script": script.String(), "config": cfg, "bytes": len(model)}
	var out bytes.Buffer
	withProcs(c.Int("procs"), func() {
		traced(r, c.Seed, c.Int("hook"), "interleavings", func(t *mon.Tracer) {
			w, err := bgzf.NewWriterLevel(&out, level, wc)
			if err != nil {
				r.Violate("writer|new", "NewWriterLevel(level=%d, wc=%d): %v", level, wc, err)
				return
			}
			if err := runScript(w, script, payloads); err != nil {
				r.Violate("writer|call-error", "%s: %v (script%s)", cfg, err, script.String())
				w.Close()
				return
			}
			if err := w.Close(); err != nil {
				r.Violate("writer|close-error", "%s: Close: %v", cfg, err)
				return
			}
			blocks := t.Count("writer.emit")
			r.Count("data_blocks_written", int64(blocks))
			r.Nontrivial = blocks >= 2
			src := wrapSource(out.Bytes(), c.Int("src"), rng)
			rr, err := bgzf.NewReader(src, rd)
			if err != nil {
				r.Violate("reader|new", "%s: NewReader on the writer's output: %v", cfg, err)
				return
			}
			cls, detail := readBack(rr, model, rng)
			if cls != "" {
				r.Violate("roundtrip|"+cls, "%s script%s: %s", cfg, script.String(), detail)
			}
			if err := rr.Close(); err != nil {
				r.Violate("reader|close-error", "%s: Reader.Close after a clean read: %v", cfg, err)
			}
		})
	})
	r.Count("payload_bytes", int64(len(model)))
	return r
}
