package prop

import (
	"bytes"
	"fmt"
	"hash/crc32"
	"math/rand"
	"strings"

	"github.com/biogo/hts/bgzf"

	"verif/core"
	"verif/gen"
	"verif/mon"
	"verif/oracle"
)

func init() {
	core.Register(&core.Prop{
		ID:    "C01",
		Level: "exploration",
		Rule: "a case is (write script, level, wc, rd, source-reader kind, read pattern, GOMAXPROCS, hook level). The script (Write lengths around 0/1/BlockSize±1/multi-block, fill level of the active block steered to 0, 1 and BlockSize-1, Flush and Wait interspersed; zeros/text/random/0xFF content) is run on the real Writer into a buffer; the buffer is read back with the real Reader using a seeded mix of Read(n) and ReadByte; the model is the concatenation of the payloads. " +
			"Every Write must return (len,nil), Flush/Wait/Close nil, every read step must return exactly the model's bytes, a short Read only at the end with io.EOF. " +
			"'limit' cases put a full incompressible block behind a padded header so that the member lands on MaxBlockSize-3..+3: when every writer call returns nil the bytes must read back. A case is non-trivial when the script produces at least 2 data blocks; distinct = distinct (script, configuration) fingerprints. Concurrent configurations are repeated under the race detector, and with the widening hook (yields/sleeps at the library's suspension points); the number of distinct hook-trace shapes is reported as observed interleavings.",
		Floor:       map[string]int{"quick": 150, "thorough": 2000},
		Plan:        c01Plan,
		Run:         c01Run,
		Assumptions: []string{"schedules are sampled (hook widening, GOMAXPROCS 1/2/16, race detector), not enumerated"},
		TimeoutS:    map[string]int{"quick": 900, "thorough": 3400},
	})
}

func c01Plan(seed int64, tier string) []core.Case {
	n := 420
	if tier == "thorough" {
		n = 6000
	}
	wcs := []int64{0, 1, 2, 3, 4, 8}
	rds := []int64{0, 1, 2, 3, 8}
	var cs []core.Case
	for i := 0; i < n; i++ {
		s := core.SubSeed(seed, "c01", i)
		rng := core.Case{Seed: s}.Rng()
		c := core.Case{Kind: "roundtrip", Seed: s, P: map[string]int64{
			"wc":    wcs[rng.Intn(len(wcs))],
			"rd":    rds[rng.Intn(len(rds))],
			"level": int64(rng.Intn(11) - 1),
			"src":   int64(rng.Intn(4)),
			"hook":  int64(rng.Intn(4)),
			"procs": []int64{0, 0, 1, 2, 16}[rng.Intn(5)],
		}}
		// every tenth case (quick) / tenth (thorough) also runs under -race when it is concurrent
		if i%7 == 0 && (c.P["wc"] != 1 || c.P["rd"] != 1) {
			c.Race = true
		}
		cs = append(cs, c)
	}
	// limit: a full incompressible block behind a padded header, so that the
	// member lands on MaxBlockSize-3..+3; either a call fails or it reads back.
	for _, level := range []int64{0, 1, -1} {
		for pad := int64(0); pad < 7; pad++ {
			for _, wc := range []int64{1, 3} {
				cs = append(cs, core.Case{Kind: "limit", Seed: core.SubSeed(seed, "c01limit", level, pad, wc),
					P: map[string]int64{"level": level, "pad": pad, "wc": wc, "rd": []int64{0, 1, 3}[int(pad+wc)%3]}})
			}
		}
	}
	// crc-zero: a stream in which one block's data has CRC-32 0 (four forged
	// trailing bytes): nothing about a block's checksum value makes it special
	for i := 0; i < 6; i++ {
		cs = append(cs, core.Case{Kind: "crc-zero", Seed: core.SubSeed(seed, "c01crc0", i), P: map[string]int64{"wc": int64(1 + i%3), "rd": int64(i % 4), "level": int64(i%3 - 1)}})
	}
	return cs
}

// forgeCRC0 returns four bytes which, appended to m, give the whole a CRC-32 of 0.
func forgeCRC0(m []byte) []byte {
	tab := crc32.IEEETable
	var rev [256]byte
	for i := 0; i < 256; i++ {
		rev[tab[i]>>24] = byte(i)
	}
	reg := uint32(0xffffffff) // the register value that finalises to 0
	var idx [4]byte
	for i := 3; i >= 0; i-- {
		k := rev[reg>>24]
		idx[i] = k
		reg = (reg ^ tab[k]) << 8
	}
	cur := crc32.ChecksumIEEE(m) ^ 0xffffffff
	out := make([]byte, 4)
	for i := 0; i < 4; i++ {
		out[i] = byte(cur) ^ idx[i]
		cur = (cur >> 8) ^ tab[idx[i]]
	}
	return out
}

func c01CRCZero(r *core.Result, c core.Case) *core.Result {
	rng := c.Rng()
	wc, rd, level := c.Int("wc"), c.Int("rd"), c.Int("level")
	mk := func(n int) []byte { b := make([]byte, n); gen.Fill(rng, b, 1+rng.Intn(2)); return b }
	a, z, b := mk(1+rng.Intn(3000)), mk(1+rng.Intn(60000)), mk(1+rng.Intn(3000))
	z = append(z, forgeCRC0(z)...)
	cfg := fmt.Sprintf("crc-zero wc=%d rd=%d level=%d blocks of %d, %d (CRC-32 %#x), %d bytes", wc, rd, level, len(a), len(z), crc32.ChecksumIEEE(z), len(b))
	r.FP = core.Hash(cfg, c.Seed)
	r.Sample = map[string]any{"config": cfg}
	if crc32.ChecksumIEEE(z) != 0 {
		r.Violate("harness|forge", "%s: the forged block does not have CRC-32 0", cfg)
		return r
	}
	r.Nontrivial = true
	var out bytes.Buffer
	w, _ := bgzf.NewWriterLevel(&out, level, wc)
	for _, p := range [][]byte{a, z, b} {
		if _, err := w.Write(p); err != nil {
			r.Violate("writer|call-error", "%s: %v", cfg, err)
			return r
		}
		if err := w.Flush(); err != nil {
			r.Violate("writer|call-error", "%s: Flush: %v", cfg, err)
			return r
		}
	}
	if err := w.Close(); err != nil {
		r.Violate("writer|close-error", "%s: %v", cfg, err)
		return r
	}
	model := append(append(append([]byte{}, a...), z...), b...)
	rr, err := bgzf.NewReader(bytes.NewReader(out.Bytes()), rd)
	if err != nil {
		r.Violate("reader|new", "%s: %v", cfg, err)
		return r
	}
	if cls, detail := readBack(rr, model, rng); cls != "" {
		r.Violate("roundtrip|"+cls, "%s: %s", cfg, detail)
	}
	rr.Close()
	r.Count("crc_zero_streams", 1)
	return r
}

// c01Limit writes some data, one full incompressible block whose member is
// padded (header comment) to land around MaxBlockSize, and more data. When
// every writer call returns nil the bytes must read back.
func c01Limit(r *core.Result, c core.Case) *core.Result {
	rng := c.Rng()
	level, wc, rd := c.Int("level"), c.Int("wc"), c.Int("rd")
	full := make([]byte, gen.BlockSize)
	rng.Read(full)
	var probe bytes.Buffer
	pw, _ := bgzf.NewWriterLevel(&probe, level, 1)
	pw.Write(full)
	pw.Close()
	pm, err := oracle.ParseStream(probe.Bytes())
	if err != nil || len(pm) == 0 {
		r.Violate("limit|probe", "cannot parse the probe stream: %v", err)
		return r
	}
	target := oracle.MaxBlockSize - 3 + c.Int("pad")
	pad := target - pm[0].Len - 1
	r.FP = core.Hash("limit", level, target, wc, rd)
	r.Sample = map[string]any{"kind": "limit", "level": level, "wc": wc, "rd": rd, "target_member_len": target, "comment_len": pad}
	if pad < 1 {
		return r
	}
	r.Nontrivial = true
	cfg := fmt.Sprintf("limit wc=%d rd=%d level=%d target member length MaxBlockSize%+d", wc, rd, level, target-oracle.MaxBlockSize)
	head := make([]byte, 1+rng.Intn(300))
	tail := make([]byte, 1+rng.Intn(300))
	gen.Fill(rng, head, 1)
	gen.Fill(rng, tail, 1)
	var out bytes.Buffer
	w, _ := bgzf.NewWriterLevel(&out, level, wc)
	w.Comment = strings.Repeat("x", pad)
	var errs []error
	step := func(_ int, err error) { errs = append(errs, err) }
	step(w.Write(head))
	step(0, w.Flush())
	step(w.Write(full))
	step(0, w.Flush())
	step(w.Write(tail))
	step(0, w.Wait())
	step(0, w.Close())
	for _, e := range errs {
		if e != nil {
			r.Count("limit_writer_reported_error", 1)
			return r // the failure was loud; C08 judges what was left behind
		}
	}
	r.Count("limit_writer_succeeded", 1)
	model := append(append(append([]byte{}, head...), full...), tail...)
	rr, err := bgzf.NewReader(bytes.NewReader(out.Bytes()), rd)
	if err != nil {
		r.Violate("reader|new", "%s: NewReader on the writer's output: %v", cfg, err)
		return r
	}
	cls, detail := readBack(rr, model, rng)
	if cls != "" {
		r.Violate("roundtrip|"+cls, "%s: every writer call returned nil, but %s", cfg, detail)
	}
	rr.Close()
	return r
}

func c01Run(c core.Case) *core.Result {
	r := core.NewResult()
	if c.Kind == "limit" {
		return c01Limit(r, c)
	}
	if c.Kind == "crc-zero" {
		return c01CRCZero(r, c)
	}
	rng := c.Rng()
	maxTotal := 6 * gen.BlockSize
	script := gen.RandScript(rng, 14, maxTotal)
	payloads := script.Payloads(rng)
	var model []byte
	for _, p := range payloads {
		model = append(model, p...)
	}
	wc, rd, level := c.Int("wc"), c.Int("rd"), c.Int("level")
	cfg := fmt.Sprintf("wc=%d rd=%d level=%d src=%d hook=%d procs=%d", wc, rd, level, c.Int("src"), c.Int("hook"), c.Int("procs"))
	r.FP = core.Hash(script.String(), len(script.Ops), script.Total(), cfg)
	r.Sample = map[string]any{"script": script.String(), "config": cfg, "bytes": len(model)}
	var out bytes.Buffer
	withProcs(c.Int("procs"), func() {
		traced(r, c.Seed, c.Int("hook"), "interleavings", func(t *mon.Tracer) {
			w, err := bgzf.NewWriterLevel(&out, level, wc)
			if err != nil {
				r.Violate("writer|new", "NewWriterLevel(level=%d, wc=%d): %v", level, wc, err)
				return
			}
			if c.Seed%4 == 0 {
				// gzip header fields (Latin-1 name and comment, other extra
				// subfields, time, OS): the reader has to get past them
				hs := randHeader(rand.New(rand.NewSource(c.Seed)))
				hs.apply(w)
				cfg += " header{" + hs.desc + "}"
				r.Count("streams_with_header_fields", 1)
			}
			if err := runScript(w, script, payloads); err != nil {
				r.Violate("writer|call-error", "%s: %v (script%s)", cfg, err, script.String())
				w.Close()
				return
			}
			if err := w.Close(); err != nil {
				r.Violate("writer|close-error", "%s: Close: %v", cfg, err)
				return
			}
			blocks := t.Count("writer.emit")
			r.Count("data_blocks_written", int64(blocks))
			r.Nontrivial = blocks >= 2
			src := wrapSource(out.Bytes(), c.Int("src"), rng)
			rr, err := bgzf.NewReader(src, rd)
			if err != nil {
				r.Violate("reader|new", "%s: NewReader on the writer's output: %v", cfg, err)
				return
			}
			cls, detail := readBack(rr, model, rng)
			if cls != "" {
				r.Violate("roundtrip|"+cls, "%s script%s: %s", cfg, script.String(), detail)
			}
			if err := rr.Close(); err != nil {
				r.Violate("reader|close-error", "%s: Reader.Close after a clean read: %v", cfg, err)
			}
		})
	})
	r.Count("payload_bytes", int64(len(model)))
	return r
}
