package prop

import (
	"bytes"
	"compress/gzip"
	"fmt"
	"io"
	"math/rand"
	"strings"
	"time"

	"github.com/biogo/hts/bgzf"

	"verif/core"
	"verif/gen"
	"verif/mon"
	"verif/oracle"
)

func init() {
	core.Register(&core.Prop{
		ID:    "C08",
		Level: "exploration",
		Rule: "a case is (write script, level, gzip header settings: Name/Comment in Latin-1, well-formed extra subfields incl. payloads containing the bytes BC\\x02\\x00, ModTime zero/epoch/arbitrary/the value whose bytes spell BC\\x02\\x00, OS) run at every wc in {1,2,3,4,8} and one of three terminations (Close; abandoned after Flush+Wait; Close with the underlying writer failing on its last or second-to-last write). " +
			"Oracle: an independent RFC1952/BGZF parser walks the bytes the underlying writer received: FEXTRA set, one BC subfield of length 2 whose value+1 is the member length, member <= 65536, payload <= 65280, CRC32 and ISIZE match, members decode to exactly the written data; compress/gzip (multistream) expands to the same data; header fields are the ones set; the last 28 bytes are the EOF marker iff Close returned nil and bgzf.HasEOF agrees; the bytes are identical at every wc. 'limit' cases sweep the header size so that an incompressible full block lands on MaxBlockSize-2..+3: the writer must either produce a conforming member or report an error and leave a conforming prefix. " +
			"Non-trivial: >= 2 data blocks; distinct = distinct (script, settings, termination).",
		Floor:       map[string]int{"quick": 100, "thorough": 1200},
		Plan:        c08Plan,
		Run:         c08Run,
		Assumptions: []string{"header settings are legal (Latin-1 without NUL, well-formed subfields)", "schedules are sampled"},
		TimeoutS:    map[string]int{"quick": 900, "thorough": 3400},
	})
}

func c08Plan(seed int64, tier string) []core.Case {
	n := 250
	if tier == "thorough" {
		n = 3000
	}
	var cs []core.Case
	for i := 0; i < n; i++ {
		s := core.SubSeed(seed, "c08", i)
		rng := core.Case{Seed: s}.Rng()
		c := core.Case{Kind: "conformance", Seed: s, P: map[string]int64{
			"level": int64(rng.Intn(11) - 1),
			"term":  int64([]int{0, 0, 0, 1, 2, 3, 4, 5}[rng.Intn(8)]),
			"hook":  int64(rng.Intn(3)),
		}}
		if i%10 == 0 {
			c.Kind = "limit"
			c.P["pad"] = int64(i/10) % 12
		}
		if i%9 == 0 {
			c.Race = true
		}
		cs = append(cs, c)
	}
	return cs
}

type hdrSettings struct {
	Name, Comment string
	Extra         []byte
	ModTime       time.Time
	OS            byte
	desc          string
}

// eofAt is an io.ReaderAt with a Size that, as io.ReaderAt allows, returns
// io.EOF together with a read that ends at the end of the data.
type eofAt struct{ b []byte }

func (e eofAt) Size() int64 { return int64(len(e.b)) }
func (e eofAt) ReadAt(p []byte, off int64) (int, error) {
	if off < 0 || off > int64(len(e.b)) {
		return 0, io.EOF
	}
	n := copy(p, e.b[off:])
	if off+int64(n) == int64(len(e.b)) {
		return n, io.EOF
	}
	return n, nil
}

func latin1(rng *rand.Rand, n int) string {
	b := make([]rune, n)
	for i := range b {
		switch rng.Intn(4) {
		case 0:
			b[i] = rune(0xa0 + rng.Intn(0x60)) // Latin-1 upper half
		default:
			b[i] = rune(0x20 + rng.Intn(0x5f))
		}
	}
	return string(b)
}

func randHeader(rng *rand.Rand) hdrSettings {
	var h hdrSettings
	h.OS = 0xff
	if rng.Intn(3) == 0 {
		h.Name = latin1(rng, 1+rng.Intn(20))
	}
	if rng.Intn(3) == 0 {
		h.Comment = latin1(rng, 1+rng.Intn(30))
	}
	if rng.Intn(3) == 0 {
		n := 1 + rng.Intn(2)
		for i := 0; i < n; i++ {
			p := make([]byte, rng.Intn(12))
			rng.Read(p)
			if rng.Intn(2) == 0 {
				p = append(p, 'B', 'C', 2, 0)
				p = append(p, byte(rng.Intn(256)), byte(rng.Intn(256)))
			}
			h.Extra = append(h.Extra, oracle.Subfield(byte('A'+rng.Intn(20)), byte('a'+rng.Intn(20)), p)...)
		}
	}
	switch rng.Intn(6) {
	case 0:
		h.ModTime = time.Unix(0, 0)
	case 1:
		h.ModTime = time.Unix(int64(rng.Uint32()>>1), 0)
	case 2:
		h.ModTime = time.Unix(0x00024342, 0) // little-endian bytes 42 43 02 00 = "BC\x02\x00"
	case 3:
		h.ModTime = time.Unix(0x43420000|int64(rng.Intn(65536)), 0)
	}
	if rng.Intn(4) == 0 {
		h.OS = byte(rng.Intn(256))
	}
	h.desc = fmt.Sprintf("name=%dB comment=%dB extra=%dB mtime=%d os=%d", len(h.Name), len(h.Comment), len(h.Extra), h.ModTime.Unix(), h.OS)
	return h
}

func (h hdrSettings) apply(w *bgzf.Writer) {
	w.Name, w.Comment, w.Extra, w.ModTime, w.OS = h.Name, h.Comment, h.Extra, h.ModTime, h.OS
}

func latin1Bytes(s string) []byte {
	var b []byte
	for _, r := range s {
		b = append(b, byte(r))
	}
	return b
}

// conform checks every framing rule on a delivered stream and returns the decoded data.
func conform(r *core.Result, cfg string, out []byte, h *hdrSettings) ([]byte, bool) {
	ms, err := oracle.ParseStream(out)
	if err != nil {
		r.Violate("conformance|framing", "%s: %v", cfg, err)
		return nil, false
	}
	var all []byte
	for i, m := range ms {
		if m.Len > oracle.MaxBlockSize {
			r.Violate("conformance|member-too-long", "%s: member %d is %d bytes", cfg, i, m.Len)
		}
		if len(m.Data) > oracle.BlockSize {
			r.Violate("conformance|payload-too-long", "%s: member %d holds %d bytes of payload", cfg, i, len(m.Data))
		}
		isMarker := bytes.Equal(out[m.Off:m.Off+int64(m.Len)], oracle.EOFMarker)
		if h != nil && !(isMarker && i == len(ms)-1) {
			if m.Name != string(latin1Bytes(h.Name)) || m.Comment != string(latin1Bytes(h.Comment)) {
				r.Violate("conformance|header-strings", "%s: member %d has name %q comment %q", cfg, i, m.Name, m.Comment)
			}
			if m.OS != h.OS {
				r.Violate("conformance|header-os", "%s: member %d has OS %d, set %d", cfg, i, m.OS, h.OS)
			}
			wantMT := uint32(0)
			if h.ModTime.After(time.Unix(0, 0)) {
				wantMT = uint32(h.ModTime.Unix())
			}
			if m.MTime != wantMT {
				r.Violate("conformance|header-mtime", "%s: member %d has MTIME %d, set %d", cfg, i, m.MTime, wantMT)
			}
			if len(m.Extra) != 6+len(h.Extra) || !bytes.Equal(m.Extra[6:], h.Extra) {
				r.Violate("conformance|header-extra", "%s: member %d extra field is % x, want BC subfield followed by % x", cfg, i, m.Extra, h.Extra)
			}
		}
		all = append(all, m.Data...)
	}
	return all, true
}

func gunzipAll(b []byte) ([]byte, error) {
	if len(b) == 0 {
		return nil, nil
	}
	zr, err := gzip.NewReader(bytes.NewReader(b))
	if err != nil {
		return nil, err
	}
	return io.ReadAll(zr)
}

func c08Run(c core.Case) *core.Result {
	r := core.NewResult()
	rng := c.Rng()
	if c.Kind == "limit" {
		return c08Limit(r, c, rng)
	}
	level, term := c.Int("level"), c.Int("term")
	script := gen.RandScript(rng, 12, 5*gen.BlockSize)
	payloads := script.Payloads(rng)
	var model []byte
	for _, p := range payloads {
		model = append(model, p...)
	}
	h := randHeader(rng)
	termName := []string{"close", "abandon-after-flush-wait", "close-last-write-fails", "close-second-to-last-write-fails", "close-last-write-fails-once", "close-second-to-last-write-fails-once"}[term]
	transient := term >= 4
	if transient {
		term -= 2
	}
	base := fmt.Sprintf("level=%d term=%s %s", level, termName, h.desc)
	r.FP = core.Hash(script.String(), script.Total(), base)
	r.Sample = map[string]any{"script": script.String(), "settings": base}
	var first []byte
	firstWC := 0
	for _, wc := range []int{1, 2, 3, 4, 8} {
		cfg := fmt.Sprintf("wc=%d %s", wc, base)
		w := &mon.RecWriter{}
		if term >= 2 {
			// count the underlying writes of a clean run first
			cw := &mon.RecWriter{}
			bw, _ := bgzf.NewWriterLevel(cw, level, wc)
			h.apply(bw)
			runScript(bw, script, payloads)
			bw.Close()
			w.FailAt = cw.Calls - (term - 2)
			if w.FailAt < 1 {
				w.FailAt = 1
			}
			w.FailOnce = transient
		}
		var closeErr error
		closed := false
		traced(r, c.Seed+int64(wc), c.Int("hook"), "interleavings", func(t *mon.Tracer) {
			bw, err := bgzf.NewWriterLevel(w, level, wc)
			if err != nil {
				r.Violate("writer|new", "%s: %v", cfg, err)
				return
			}
			h.apply(bw)
			if err := runScript(bw, script, payloads); err != nil {
				if term < 2 {
					r.Violate("writer|call-error", "%s: %v", cfg, err)
				}
				closeErr = bw.Close()
				closed = true
				return
			}
			if term == 1 {
				if err := bw.Flush(); err != nil {
					r.Violate("writer|call-error", "%s: Flush: %v", cfg, err)
				}
				if err := bw.Wait(); err != nil {
					r.Violate("writer|call-error", "%s: Wait: %v", cfg, err)
				}
				return // abandoned
			}
			closeErr = bw.Close()
			closed = true
		})
		out := w.Bytes()
		if w.Partial || (w.Failed && false) {
			continue
		}
		data, ok := conform(r, cfg, out, &h)
		if !ok {
			return r
		}
		// gzip compatibility
		gz, gerr := gunzipAll(out)
		if gerr != nil {
			r.Violate("conformance|gzip", "%s: compress/gzip cannot expand the stream: %v", cfg, gerr)
		} else if !bytes.Equal(gz, data) {
			r.Violate("conformance|gzip-differs", "%s: compress/gzip expands the stream to %d bytes, the member parser to %d", cfg, len(gz), len(data))
		}
		marker := oracle.HasEOFMarker(out)
		closedOK := closed && closeErr == nil
		if marker != closedOK {
			r.Violate("eof-marker|"+termName, "%s: stream ends with the EOF marker = %v, writer closed without error = %v (Close error: %v)", cfg, marker, closedOK, closeErr)
		}
		if len(out) >= 28 {
			he, herr := bgzf.HasEOF(bytes.NewReader(out))
			if herr != nil || he != marker {
				r.Violate("haseof", "%s: HasEOF = (%v, %v), stream ends with the marker = %v", cfg, he, herr, marker)
			}
			// HasEOF takes an io.ReaderAt: the answer cannot depend on how much
			// of the value has been read or where it has been sought to
			br := bytes.NewReader(out)
			io.CopyN(io.Discard, br, int64(rng.Intn(len(out)+1)))
			sr := strings.NewReader(string(out))
			io.Copy(io.Discard, sr)
			sec := io.NewSectionReader(bytes.NewReader(out), 0, int64(len(out)))
			sec.Seek(int64(rng.Intn(len(out))), io.SeekStart)
			for i, ra := range []io.ReaderAt{br, sr, sec, eofAt{out}} {
				he, herr := bgzf.HasEOF(ra)
				if herr != nil || he != marker {
					r.Violate("haseof|used-reader", "%s: HasEOF on %s = (%v, %v), stream ends with the marker = %v", cfg, []string{"a partly consumed bytes.Reader", "a consumed strings.Reader", "a repositioned io.SectionReader", "a ReaderAt that returns the last bytes together with io.EOF"}[i], he, herr, marker)
				}
			}
		} else {
			// shorter than the marker: there is no marker, and that is not an error
			if he, herr := bgzf.HasEOF(bytes.NewReader(out)); he || herr != nil {
				r.Violate("haseof|short-stream", "%s: HasEOF on a stream of %d bytes = (%v, %v), want (false, nil)", cfg, len(out), he, herr)
			}
		}
		switch term {
		case 0:
			if !bytes.Equal(data, model) {
				r.Violate("conformance|data", "%s: the members decode to %d bytes, %d were written (or content differs)", cfg, len(data), len(model))
			}
			if closeErr != nil {
				r.Violate("writer|close-error", "%s: Close: %v", cfg, closeErr)
			}
		case 1:
			if !bytes.Equal(data, model) {
				r.Violate("conformance|data", "%s: after Flush+Wait the members decode to %d bytes, %d were written", cfg, len(data), len(model))
			}
		default:
			if closeErr == nil {
				r.Violate("writer|fault-swallowed", "%s: underlying write %d failed but Close returned nil", cfg, w.FailAt)
			}
			if len(data) > len(model) || !bytes.Equal(data, model[:len(data)]) {
				r.Violate("conformance|data", "%s: delivered members are not a prefix of the written data", cfg)
			}
		}
		if term < 2 {
			if first == nil {
				first, firstWC = out, wc
				blocks := 0
				ms, _ := oracle.ParseStream(out)
				for _, m := range ms {
					if len(m.Data) > 0 {
						blocks++
					}
				}
				r.Count("data_blocks", int64(blocks))
				r.Nontrivial = blocks >= 2
			} else if !bytes.Equal(first, out) {
				r.Violate("determinism", "%s: output differs from the output at wc=%d (%d vs %d bytes)", cfg, firstWC, len(out), len(first))
			}
		} else {
			r.Nontrivial = true
		}
		r.Count("streams_checked", 1)
		if len(r.Viol) > 0 {
			break
		}
	}
	return r
}

// c08Limit writes one full incompressible block with a header padded so that
// the member lands around MaxBlockSize.
func c08Limit(r *core.Result, c core.Case, rng *rand.Rand) *core.Result {
	level := c.Int("level")
	data := make([]byte, gen.BlockSize)
	rng.Read(data)
	// Find the member size with an empty comment, then pad.
	probe := &mon.RecWriter{}
	pw, _ := bgzf.NewWriterLevel(probe, level, 1)
	pw.Write(data)
	pw.Close()
	pm, err := oracle.ParseStream(probe.Bytes())
	if err != nil || len(pm) == 0 {
		r.Violate("limit|probe", "cannot parse the probe stream: %v", err)
		return r
	}
	baseLen := pm[0].Len
	target := oracle.MaxBlockSize - 3 + c.Int("pad")%7 // MaxBlockSize-3 .. +3
	pad := target - baseLen - 1                        // comment bytes + NUL
	r.FP = core.Hash("limit", level, target)
	r.Nontrivial = true
	r.Sample = map[string]any{"kind": "limit", "level": level, "target_member_len": target, "unpadded_len": baseLen, "comment_len": pad}
	if pad < 1 {
		r.Nontrivial = false
		return r
	}
	h := hdrSettings{Comment: latin1(rand.New(rand.NewSource(1)), pad)[:0], OS: 0xff}
	cm := make([]byte, pad)
	for i := range cm {
		cm[i] = 'x'
	}
	h.Comment = string(cm)
	for _, wc := range []int{1, 3} {
		cfg := fmt.Sprintf("limit wc=%d level=%d target member length %d (MaxBlockSize%+d)", wc, level, target, target-oracle.MaxBlockSize)
		w := &mon.RecWriter{}
		bw, _ := bgzf.NewWriterLevel(w, level, wc)
		h.apply(bw)
		_, werr := bw.Write(data)
		ferr := bw.Flush()
		aerr := bw.Wait()
		cerr := bw.Close()
		anyErr := werr != nil || ferr != nil || aerr != nil || cerr != nil
		out := w.Bytes()
		dec, ok := conform(r, cfg, out, nil)
		if !ok {
			return r
		}
		if target <= oracle.MaxBlockSize {
			if anyErr {
				r.Violate("limit|refused-fitting-member", "%s: the member fits in 64 KiB but the writer reported write=%v flush=%v wait=%v close=%v", cfg, werr, ferr, aerr, cerr)
			} else if !bytes.Equal(dec, data) {
				r.Violate("limit|data", "%s: decoded %d bytes, wrote %d", cfg, len(dec), len(data))
			}
		} else {
			if !anyErr {
				r.Violate("limit|overflow-not-reported", "%s: the member cannot fit in 64 KiB but no call reported an error", cfg)
			}
			if len(dec) > len(data) || !bytes.Equal(dec, data[:len(dec)]) {
				r.Violate("limit|data", "%s: delivered members are not a prefix of the data", cfg)
			}
		}
		if oracle.HasEOFMarker(out) != (cerr == nil) {
			r.Violate("eof-marker|limit", "%s: marker present = %v, Close error = %v", cfg, oracle.HasEOFMarker(out), cerr)
		}
		r.Count("limit_streams", 1)
	}
	return r
}
