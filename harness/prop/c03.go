package prop

import (
	"bytes"
	"fmt"

	"github.com/biogo/hts/bgzf"
	"github.com/biogo/hts/bgzf/cache"

	"verif/core"
	"verif/gen"
	"verif/mon"
)

var cacheKindNames = []string{"LRU", "FIFO", "Random", "Stats(LRU)", "Stats(FIFO)", "Stats(Random)", "LRU(>file)", "none(detach)"}

// mkCache builds one of the provided caches.
func mkCache(kind, capacity, nblocks int) bgzf.Cache {
	switch kind {
	case 0:
		return cache.NewLRU(capacity)
	case 1:
		return cache.NewFIFO(capacity)
	case 2:
		return cache.NewRandom(capacity)
	case 3:
		return &cache.StatsRecorder{Cache: cache.NewLRU(capacity)}
	case 4:
		return &cache.StatsRecorder{Cache: cache.NewFIFO(capacity)}
	case 5:
		return &cache.StatsRecorder{Cache: cache.NewRandom(capacity)}
	case 7:
		return nil // detach the cache
	}
	return cache.NewLRU(nblocks + 2)
}

func init() {
	core.Register(&core.Prop{
		ID:    "C03",
		Level: "exploration",
		Rule: "a case is the C02 file and history generators with SetCache(kind, capacity) at the start and at arbitrary later points (LRU, FIFO, Random, each also inside StatsRecorder, capacities 1..6 and one larger than the file), histories biased to revisits of recent blocks, revisits after >= capacity other blocks, seeks to the block at the head of the read-ahead queue; x rd x hook level x GOMAXPROCS. " +
			"Oracle: the same history runs in lock-step on an uncached reader with the same rd; bytes, end-of-data condition, error class and raw LastChunk must be identical per call, and both are checked against the flat model; panics and runtime-detected deadlocks are violations. " +
			"Classes reported separately: A = rd<=1, B = rd>1. Non-trivial: >= 1 Seek, >= 1 block crossing and a cache attached for >= 1 revisit seek.",
		Floor:       map[string]int{"quick": 150, "thorough": 2000},
		Plan:        c03Plan,
		Run:         c03Run,
		Assumptions: []string{"hit/miss statistics are not part of the property and are not compared", "schedules are sampled, not enumerated"},
		TimeoutS:    map[string]int{"quick": 900, "thorough": 3400},
	})
}

func c03Plan(seed int64, tier string) []core.Case {
	per := 10
	ops := int64(40)
	if tier == "thorough" {
		per, ops = 110, 160
	}
	var cs []core.Case
	i := 0
	for kind := int64(0); kind < 7; kind++ {
		for _, rd := range []int64{1, 2, 4} {
			for k := 0; k < per; k++ {
				s := core.SubSeed(seed, "c03", kind, rd, k)
				rng := core.Case{Seed: s}.Rng()
				c := core.Case{Kind: "cached-history", Seed: s, P: map[string]int64{
					"kind":  kind,
					"cap":   int64(1 + rng.Intn(6)),
					"rd":    rd,
					"ops":   ops/2 + int64(rng.Intn(int(ops))),
					"hook":  int64(rng.Intn(4)),
					"procs": []int64{0, 0, 1, 2, 16}[rng.Intn(5)],
				}}
				if k%3 == 0 && rng.Intn(4) == 0 {
					c.P["rd"] = 0
				}
				if i%6 == 0 && rd > 1 {
					c.Race = true
				}
				i++
				cs = append(cs, c)
			}
		}
	}
	return cs
}

func c03Run(c core.Case) *core.Result {
	r := core.NewResult()
	rng := c.Rng()
	f := gen.RandFile(rng, gen.FileOpts{MaxBlocks: 14, SmallOnly: true, ExtraField: false, MaxMember: true})
	rd := c.Int("rd")
	kind, capn := c.Int("kind"), c.Int("cap")
	class := "A"
	if rd != 1 {
		class = "B"
	}
	cfg := fmt.Sprintf("class=%s cache=%s cap=%d rd=%d hook=%d procs=%d blocks=%d table(base:len)=%s", class, cacheKindNames[kind], capn, rd, c.Int("hook"), c.Int("procs"), len(f.Blocks), blockTable(f))
	var hist []string
	withProcs(c.Int("procs"), func() {
		traced(r, c.Seed, c.Int("hook"), "interleavings", func(t *mon.Tracer) {
			rr, err := bgzf.NewReader(bytes.NewReader(f.Bytes), rd)
			if err != nil {
				r.Violate("reader|new", "%s: NewReader: %v", cfg, err)
				return
			}
			ref, err := bgzf.NewReader(bytes.NewReader(f.Bytes), rd)
			if err != nil {
				r.Violate("reader|new", "%s: NewReader: %v", cfg, err)
				return
			}
			defer ref.Close()
			defer rr.Close()
			if rng.Intn(4) != 0 {
				rr.SetCache(mkCache(kind, capn, len(f.Blocks)))
				hist = append(hist, fmt.Sprintf("SetCache(%s,%d)", cacheKindNames[kind], capn))
			}
			runHistory2(r, rng, f, rr, ref, c.Int("ops"), histOpts{caches: true, revisit: true, smallN: true}, cfg, &hist)
		})
	})
	r.Count("class_"+class+"_cases", 1)
	r.Add("cache_configs", fmt.Sprintf("%s/%d/rd%d", cacheKindNames[kind], capn, rd))
	r.FP = core.Hash(cfg, len(f.Bytes), hist)
	for i := range r.Viol {
		r.Viol[i].Sig = "class" + class + "|" + cacheKindNames[kind] + "|" + r.Viol[i].Sig
	}
	h := hist
	if len(h) > 16 {
		h = h[:16]
	}
	r.Sample = map[string]any{"config": cfg, "history": h}
	return r
}

func blockTable(f *gen.File) string {
	s := ""
	for _, b := range f.Blocks {
		s += fmt.Sprintf(" %d:%d", b.Base, b.Len)
	}
	return s + fmt.Sprintf(" size=%d", len(f.Bytes))
}
