package prop

import (
	"bytes"
	"fmt"
	"io"
	"math/rand"

	"github.com/biogo/hts/bgzf"

	"verif/core"
	"verif/gen"
	"verif/mon"
)

func init() {
	core.Register(&core.Prop{
		ID:    "C02",
		Level: "exploration",
		Rule: "a case is (BGZF file built by the independent encoder: 1..N members of 1..BlockSize bytes, empty members singly/in runs/first/last, with or without EOF marker, other extra subfields) x (history of Seek/Read/ReadByte/Blocked toggles/replay-of-LastChunk/sleeps drawn against the flat model) x rd x hook level x GOMAXPROCS, no cache. " +
			"After every call the real reader's bytes, error class and LastChunk (translated through the block table) are compared with the flat model. Seeks are drawn from classes current/next/previous/last/final-member/empty/random, with offsets 0, len-1, len and random, also after end of data was reported. " +
			"Non-trivial: the history contains >= 1 Seek and reads crossing >= 1 block boundary. Observed interleavings = distinct hook-trace shapes; 'every call returns' is decided by the Go runtime's deadlock detector in the child.",
		Floor:       map[string]int{"quick": 150, "thorough": 2000},
		Plan:        c02Plan,
		Run:         c02Run,
		Assumptions: []string{"Seek targets are block starts plus an offset <= the block's length, as the property states", "schedules are sampled, not enumerated"},
		TimeoutS:    map[string]int{"quick": 900, "thorough": 3400},
	})
}

func c02Plan(seed int64, tier string) []core.Case {
	n, ops := 320, int64(28)
	if tier == "thorough" {
		n, ops = 4400, 200
	}
	rds := []int64{0, 1, 2, 3, 8}
	var cs []core.Case
	for i := 0; i < n; i++ {
		s := core.SubSeed(seed, "c02", i)
		rng := core.Case{Seed: s}.Rng()
		c := core.Case{Kind: "history", Seed: s, P: map[string]int64{
			"rd":    rds[rng.Intn(len(rds))],
			"ops":   ops/2 + int64(rng.Intn(int(ops))),
			"hook":  int64(rng.Intn(4)),
			"procs": []int64{0, 0, 1, 2, 16}[rng.Intn(5)],
			"big":   int64(rng.Intn(3) / 2),
		}}
		if i%8 == 0 && c.P["rd"] != 1 {
			c.Race = true
		}
		cs = append(cs, c)
	}
	// seek-storm: hundreds of thousands of Seeks to random block starts as
	// fast as possible with deep read-ahead, so that redirections of the
	// read-ahead goroutine meet it in every phase of its loop; a call that
	// never returns shows as a runtime-detected deadlock (plain build).
	nst := 12
	if tier == "thorough" {
		nst = 64
	}
	for i := 0; i < nst; i++ {
		cs = append(cs, core.Case{Kind: "seek-storm", Seed: core.SubSeed(seed, "c02storm", i), P: map[string]int64{
			"rd": []int64{4, 8, 16, 32}[i%4], "n": 150000, "procs": []int64{0, 0, 2, 4}[(i/4)%4]}})
	}
	return cs
}

func c02Storm(r *core.Result, c core.Case) *core.Result {
	rng := c.Rng()
	f := gen.RandFile(rng, gen.FileOpts{MaxBlocks: 24, SmallOnly: true, NoEmpty: true})
	rd, n := c.Int("rd"), c.Int("n")
	cfg := fmt.Sprintf("seek-storm rd=%d seeks=%d procs=%d blocks=%d", rd, n, c.Int("procs"), len(f.Blocks))
	r.FP = core.Hash(cfg, len(f.Bytes))
	r.Sample = map[string]any{"config": cfg}
	var data []int
	for i, b := range f.Blocks {
		if b.Len > 0 {
			data = append(data, i)
		}
	}
	if len(data) < 3 {
		return r
	}
	r.Nontrivial = true
	withProcs(c.Int("procs"), func() {
		rr, err := bgzf.NewReader(bytes.NewReader(f.Bytes), rd)
		if err != nil {
			r.Violate("reader|new", "%s: %v", cfg, err)
			return
		}
		defer rr.Close()
		buf := make([]byte, 16)
		for i := 0; i < n; i++ {
			b := f.Blocks[data[rng.Intn(len(data))]]
			if err := rr.Seek(bgzf.Offset{File: b.Base}); err != nil {
				r.Violate("storm|seek-error", "%s: Seek number %d to block base %d: %v", cfg, i, b.Base, err)
				return
			}
			if i%61 == 0 {
				k, err := rr.Read(buf[:1+rng.Intn(15)])
				if err != nil && err != io.EOF || !bytes.Equal(buf[:k], f.Flat[b.Start:b.Start+int64(k)]) {
					r.Violate("storm|wrong-bytes", "%s: after Seek number %d to block base %d Read returned (%d, %v) and bytes that differ from the flat data", cfg, i, b.Base, k, err)
					return
				}
			}
		}
		r.Count("storm_seeks", int64(n))
	})
	return r
}

func c02Run(c core.Case) *core.Result {
	r := core.NewResult()
	if c.Kind == "seek-storm" {
		return c02Storm(r, c)
	}
	rng := c.Rng()
	f := gen.RandFile(rng, gen.FileOpts{MaxBlocks: 14, SmallOnly: c.Int("big") == 0, ExtraField: true, MaxMember: true})
	rd := c.Int("rd")
	cfg := fmt.Sprintf("rd=%d hook=%d procs=%d blocks=%d eofmarker=%v", rd, c.Int("hook"), c.Int("procs"), len(f.Blocks), f.HasEOF)
	if f.MaxMember {
		cfg += " one-member-of-65536-bytes"
		r.Count("files_with_a_max_size_member", 1)
	}
	var hist []string
	withProcs(c.Int("procs"), func() {
		traced(r, c.Seed, c.Int("hook"), "interleavings", func(t *mon.Tracer) {
			rr, err := bgzf.NewReader(bytes.NewReader(f.Bytes), rd)
			if err != nil {
				r.Violate("reader|new", "%s: NewReader on a valid file: %v", cfg, err)
				return
			}
			defer rr.Close()
			runHistory(r, rng, f, rr, c.Int("ops"), histOpts{}, cfg, &hist)
			r.Count("stale_or_waited_consumes", int64(t.Count("reader.consume")))
		})
	})
	r.FP = core.Hash(cfg, len(f.Bytes), hist)
	h := hist
	if len(h) > 16 {
		h = h[:16]
	}
	r.Sample = map[string]any{"config": cfg, "file_bytes": len(f.Bytes), "history": h}
	return r
}

// runHistory drives a reader with a history drawn against the flat model and
// checks every step. It is also used (without SetCache ops) by other properties.
func runHistory(r *core.Result, rng *rand.Rand, f *gen.File, rr *bgzf.Reader, nops int, ho histOpts, cfg string, hist *[]string) {
	runHistory2(r, rng, f, rr, nil, nops, ho, cfg, hist)
}

// runHistory2 additionally applies every operation to a shadow reader ref (an
// uncached reader of the same file) and requires identical observable results.
func runHistory2(r *core.Result, rng *rand.Rand, f *gen.File, rr, ref *bgzf.Reader, nops int, ho histOpts, cfg string, hist *[]string) {
	m := &rmodel{f: f}
	var usedCaches []bgzf.Cache
	same := func(op rop, a, b stepResult) bool {
		if ref == nil {
			return true
		}
		if !bytes.Equal(a.data, b.data) || a.eof != b.eof || (a.err == nil) != (b.err == nil) || a.chunk != b.chunk {
			h := *hist
			if len(h) > 30 {
				h = h[len(h)-30:]
			}
			r.Violate("differential|"+string(op.Kind), "%s\n%v: cached reader returned (%d bytes, eof=%v, err=%v, LastChunk=%v), uncached reader (%d bytes, eof=%v, err=%v, LastChunk=%v)\nlast operations: %v", cfg, op, len(a.data), a.eof, a.err, a.chunk, len(b.data), b.eof, b.err, b.chunk, h)
			return false
		}
		return true
	}
	var recent []int
	seeks, crossings := 0, 0
	fail := func(cls, detail string) {
		h := *hist
		if len(h) > 30 {
			h = h[len(h)-30:]
		}
		r.Violate("history|"+cls, "%s\n%s\nlast operations: %v", cfg, detail, h)
	}
	var curCache, suspended bgzf.Cache
	var pending []rop
	for i := 0; i < nops; i++ {
		var op rop
		if len(pending) > 0 {
			op, pending = pending[0], pending[1:]
		} else if ho.caches && curCache != nil && len(recent) > 0 && rng.Intn(14) == 0 {
			// scenario: revisit a block (served by the cache), suspend the cache,
			// read on into the following blocks, re-attach the same cache object,
			// come back to the block.
			b := recent[rng.Intn(len(recent))]
			pending = []rop{
				{Kind: 'S', Blk: b, Cls: "revisit"},
				{Kind: 'C', Aux: -1},
				{Kind: 'R', N: f.Blocks[b].Len + 1 + rng.Intn(200)},
				{Kind: 'C', Aux: -2},
				{Kind: 'S', Blk: b, Cls: "revisit"},
				{Kind: 'R', N: 1 + rng.Intn(300)},
			}
			op, pending = pending[0], pending[1:]
			r.Count("suspend_reattach_scenarios", 1)
		} else if len(f.Blocks) >= 6 && rng.Intn(10) == 0 {
			// scenario: two redirections of the read-ahead goroutine back to
			// back - Seek far away, at once Seek to a block read-ahead had
			// already queued before the first Seek, then read across several
			// block ends so that everything queued earlier is used up.
			cur := m.curBlock()
			if cur < 0 {
				cur = 0
			}
			near := cur + 1 + rng.Intn(3)
			if near >= len(f.Blocks) {
				near = len(f.Blocks) - 1
			}
			far := rng.Intn(len(f.Blocks))
			n := 10
			for k := near; k < len(f.Blocks) && k < near+2+rng.Intn(2); k++ {
				n += f.Blocks[k].Len
			}
			pending = []rop{
				{Kind: 'S', Blk: far, Cls: "random"},
				{Kind: 'S', Blk: near, Cls: "queued-before-last-seek"},
				{Kind: 'R', N: n},
			}
			op, pending = pending[0], pending[1:]
			r.Count("double_seek_scenarios", 1)
		} else {
			op = nextOp(rng, m, ho, recent)
		}
		*hist = append(*hist, op.String())
		switch op.Kind {
		case 'S':
			s := applyOp(rr, f, op)
			if s.err != nil {
				fail("seek-error", fmt.Sprintf("%v returned %v", op, s.err))
				return
			}
			if ref != nil && !same(op, s, applyOp(ref, f, op)) {
				return
			}
			b := f.Blocks[op.Blk]
			m.p = b.Start + int64(op.Off)
			m.atEnd = false
			seeks++
			r.Count("seek_"+seekClass(op.Cls), 1)
			recent = append(recent, op.Blk)
			if len(recent) > 8 {
				recent = recent[1:]
			}
		case 'R', 'B':
			before := m.p
			n := op.N
			if op.Kind == 'B' {
				n = 1
			}
			b0 := m.curBlock()
			want, wantEOF := m.expectRead(n)
			if op.Kind == 'B' {
				wantEOF = len(want) == 0
			}
			s := applyOp(rr, f, op)
			if cls, d := checkStep(m, op, before, want, wantEOF, s); cls != "" {
				fail(cls, d)
				return
			}
			if ref != nil && !same(op, s, applyOp(ref, f, op)) {
				return
			}
			if s.eof && m.p == m.total() && !m.blocked {
				m.atEnd = true
			}
			if s.eof && m.p == m.total() && m.curBlock() < 0 {
				m.atEnd = true
			}
			if b1 := m.curBlock(); b1 != b0 {
				crossings++
			}
		case 'C':
			// a fresh cache, no cache, or one of the caches attached earlier in this history
			var cc bgzf.Cache
			if op.Aux == -1 {
				suspended, cc = curCache, nil
			} else if op.Aux == -2 {
				cc = suspended
				r.Count("setcache_reattach_ops", 1)
			} else if len(usedCaches) > 0 && op.N%3 == 0 {
				cc = usedCaches[op.Aux%len(usedCaches)]
				r.Count("setcache_reattach_ops", 1)
			} else {
				cc = mkCache(op.Aux, op.N, len(f.Blocks))
				if cc != nil {
					usedCaches = append(usedCaches, cc)
				}
			}
			rr.SetCache(cc)
			curCache = cc
			r.Count("setcache_ops", 1)

		case 'T':
			applyOp(rr, f, op)
			if ref != nil {
				applyOp(ref, f, op)
			}
			m.blocked = !m.blocked
			if rr.Blocked != m.blocked {
				fail("blocked-flag", "Blocked flag out of step")
				return
			}
		case 'Z':
			applyOp(rr, f, op)
		case 'P':
			// Replay: seek to the Begin the reader itself reported, read again.
			lc := rr.LastChunk()
			pb, err := m.translate(lc.Begin, false)
			if err != nil {
				// LastChunk after a Seek names the seek target; after an
				// end-of-data read it may name the end. Not a replay target.
				continue
			}
			if err := rr.Seek(lc.Begin); err != nil {
				fail("seek-error", fmt.Sprintf("Seek to the reported LastChunk().Begin %v returned %v", lc.Begin, err))
				return
			}
			if ref != nil {
				if err := ref.Seek(lc.Begin); err != nil {
					fail("seek-error", fmt.Sprintf("uncached reader: Seek to %v returned %v", lc.Begin, err))
					return
				}
			}
			m.p = pb
			m.atEnd = false
			seeks++
			r.Count("seek_replay", 1)
			before := m.p
			want, wantEOF := m.expectRead(op.N)
			s := applyOp(rr, f, rop{Kind: 'R', N: op.N})
			if cls, d := checkStep(m, rop{Kind: 'R', N: op.N}, before, want, wantEOF, s); cls != "" {
				fail("replay-"+cls, d)
				return
			}
			if ref != nil && !same(rop{Kind: 'R', N: op.N}, s, applyOp(ref, f, rop{Kind: 'R', N: op.N})) {
				return
			}
		}
	}
	r.Count("operations", int64(nops))
	r.Count("seeks", int64(seeks))
	r.Count("block_crossings", int64(crossings))
	r.Nontrivial = seeks >= 1 && crossings >= 1
}

func seekClass(c string) string {
	for i := 0; i < len(c); i++ {
		if c[i] == '+' {
			if len(c) > i+8 && c[len(c)-8:] == "aftereof" {
				return c[:i] + "_aftereof"
			}
			return c[:i]
		}
	}
	return c
}
