package prop

import (
	"bytes"
	"errors"
	"fmt"
	"io"
	"math/rand"
	"os"
	"runtime"
	"strings"
	"time"

	"github.com/biogo/hts/bam"
	"github.com/biogo/hts/bgzf"
	"github.com/biogo/hts/bgzf/cache"
	"github.com/biogo/hts/bgzf/index"
	"github.com/biogo/hts/sam"

	"verif/core"
	"verif/gen"
	"verif/mon"
)

func init() {
	core.Register(&core.Prop{
		ID:    "C09",
		Level: "fault_enumeration",
		Rule: "fixed workload family: writer {one small write; one 4-block write; ten writes with Flush between; Flush+Wait after every block; bam.Writer of 50 records}, reader {sequential read to EOF; 14-op Seek/Read history; ChunkReader walk} on a 12-block file, source with and without io.ByteReader. For each workload the underlying calls K of a clean run are counted, then for EVERY k in 1..K+1 a fault is injected at call k: error, error after partial data, (reader) error on the k-th Seek; x wc/rd in {1,2,4} x {no cache, LRU(2)} x delay of the faulty call {0, 2 ms}. " +
			"Oracle: every API call returns (Go runtime deadlock detector, plain build); after Close no goroutine with a bgzf frame remains (runtime.Stack polling); writer: Close non-nil iff... whenever an underlying write failed, and once a call returned an error all later Write/Flush/Wait return non-nil; reader: bytes returned are the flat model's bytes for their position also after recovery by Seek, io.EOF only at the true end, a fault surfaces as a non-EOF error or not at all. " +
			"A case is non-trivial when the injected fault was actually hit; distinct = distinct (workload, k, mode, config).",
		Floor:       map[string]int{"quick": 300, "thorough": 2500},
		Plan:        c09Plan,
		Run:         c09Run,
		Exhaustive:  true,
		ExhaustNote: "the fault index k is enumerated completely (1..K+1) for every workload x fault mode x configuration in the tier's family; schedules around the fault are sampled (delay on/off, hook levels)",
		Assumptions: []string{"faults are errors or errors after partial data, never contract-violating silent short writes", "K is measured on a clean run of the same workload and configuration; with read-ahead the number of underlying calls a faulty run makes can differ, so k ranges to K+2"},
		TimeoutS:    map[string]int{"quick": 900, "thorough": 3400},
	})
}

var c09WriterWL = []string{"small", "four-blocks", "ten-flush", "flushwait-each", "bam50"}
var c09ReaderWL = []string{"readall", "history", "chunkreader"}

func c09Plan(seed int64, tier string) []core.Case {
	var cs []core.Case
	wls := c09WriterWL
	rls := c09ReaderWL
	confs := []int64{1, 2, 4}
	delays := []int64{0, 2}
	if tier != "thorough" {
		wls = []string{"small", "four-blocks", "ten-flush", "bam50"}
		rls = []string{"readall", "history"}
		confs = []int64{1, 2, 4}
		delays = []int64{0}
	}
	i := 0
	for _, wl := range wls {
		for _, wc := range confs {
			K := c09CountWriter(wl, int(wc))
			for k := 1; k <= K+1; k++ {
				for _, mode := range []int64{0, 1, 2, 3} {
					for _, d := range delays {
						c := core.Case{Kind: "writer", Seed: core.SubSeed(seed, "c09w", wl, wc, k, mode, d),
							S: map[string]string{"wl": wl}, P: map[string]int64{"wc": wc, "k": int64(k), "mode": mode, "delay": d, "K": int64(K)}}
						if i%9 == 0 && tier == "thorough" || i%25 == 0 {
							c.Race = true
						}
						i++
						cs = append(cs, c)
					}
				}
			}
		}
	}
	for _, wl := range rls {
		for _, rd := range confs {
			for _, cch := range []int64{0, 1} {
				for _, br := range []int64{1, 0, 2} {
					if tier != "thorough" && br == 0 && cch == 1 {
						continue
					}
					if br == 2 && (wl != "readall" || cch == 1) {
						continue // the source that cannot seek: sequential workload only
					}
					K, KS := c09CountReader(seed, wl, int(rd), int(cch), int(br))
					for _, mode := range []int64{0, 1, 2} {
						if br == 2 && mode == 2 {
							continue
						}
						top := K + 2
						if mode == 2 {
							top = KS + 1
						}
						step := 1
						if tier != "thorough" && br == 0 {
							step = 3
						}
						if br == 2 {
							// 61 bytes per underlying read: the fault index walks
							// through every member in small steps
							step = 2
							if tier != "thorough" {
								step = 9
							}
						}
						for k := 1; k <= top; k += step {
							for _, d := range delays {
								// with read-ahead the outcome depends on the schedule: repeat
								// the case under several hook schedules
								reps := 1
								if rd > 1 {
									reps = 2
									if tier == "thorough" {
										reps = 6
									}
								}
								for rep := 0; rep < reps; rep++ {
									c := core.Case{Kind: "reader", Seed: core.SubSeed(seed, "c09r", wl, rd, cch, br, k, mode, d, rep),
										S: map[string]string{"wl": wl}, P: map[string]int64{"rd": rd, "cache": cch, "byter": br, "k": int64(k), "mode": mode, "delay": d, "fseed": seed, "rep": int64(rep)}}
									if i%9 == 0 && tier == "thorough" || i%40 == 0 {
										c.Race = true
									}
									i++
									cs = append(cs, c)
								}
							}
						}
					}
				}
			}
		}
	}
	return cs
}

// ---- writer side ----

func c09Payload(n int, salt byte) []byte {
	b := make([]byte, n)
	x := uint32(salt) + 12345
	for i := range b {
		x = x*1664525 + 1013904223
		b[i] = byte(x >> 24)
	}
	return b
}

// c09WriterOps returns the API calls of a writer workload: W<len>, F, A.
func c09WriterOps(wl string) []gen.WOp {
	var ops []gen.WOp
	switch wl {
	case "small":
		ops = append(ops, gen.WOp{Op: 'W', Len: 1000})
	case "four-blocks":
		ops = append(ops, gen.WOp{Op: 'W', Len: 4*gen.BlockSize - 100})
	case "ten-flush":
		for i := 0; i < 10; i++ {
			ops = append(ops, gen.WOp{Op: 'W', Len: 500 + 100*i}, gen.WOp{Op: 'F'})
		}
	case "flushwait-each":
		for i := 0; i < 6; i++ {
			ops = append(ops, gen.WOp{Op: 'W', Len: 3000}, gen.WOp{Op: 'F'}, gen.WOp{Op: 'A'})
		}
	}
	return ops
}

func c09Bam() (*sam.Header, []*sam.Record) {
	ref, _ := sam.NewReference("chr1", "", "", 1000000, nil, nil)
	h, _ := sam.NewHeader(nil, []*sam.Reference{ref})
	var recs []*sam.Record
	for i := 0; i < 50; i++ {
		seq := c09Payload(3000, byte(i))
		for j := range seq {
			seq[j] = "ACGT"[seq[j]&3]
		}
		r, err := sam.NewRecord(fmt.Sprintf("r%03d", i), ref, nil, i*10, -1, 0, 30, []sam.CigarOp{sam.NewCigarOp(sam.CigarMatch, len(seq))}, seq, nil, nil)
		if err != nil {
			panic(err)
		}
		recs = append(recs, r)
	}
	return h, recs
}

// c09DriveWriter runs a workload; it returns the sequence of (call, error).
type wcall struct {
	name string
	err  error
}

func c09DriveWriter(wl string, w io.Writer, wc int) []wcall {
	var calls []wcall
	if wl == "bam50" {
		h, recs := c09Bam()
		bw, err := bam.NewWriter(w, h, wc)
		calls = append(calls, wcall{"bam.NewWriter", err})
		if err != nil {
			return calls
		}
		for i, r := range recs {
			calls = append(calls, wcall{fmt.Sprintf("bam.Write#%d", i), bw.Write(r)})
		}
		calls = append(calls, wcall{"Close", bw.Close()})
		return calls
	}
	bw := bgzf.NewWriter(w, wc)
	for i, op := range c09WriterOps(wl) {
		switch op.Op {
		case 'W':
			_, err := bw.Write(c09Payload(op.Len, byte(i)))
			calls = append(calls, wcall{fmt.Sprintf("Write#%d(%d)", i, op.Len), err})
		case 'F':
			calls = append(calls, wcall{fmt.Sprintf("Flush#%d", i), bw.Flush()})
		case 'A':
			calls = append(calls, wcall{fmt.Sprintf("Wait#%d", i), bw.Wait()})
		}
	}
	calls = append(calls, wcall{"Close", bw.Close()})
	calls = append(calls, wcall{"Close(again)", bw.Close()})
	return calls
}

func c09CountWriter(wl string, wc int) int {
	w := &mon.RecWriter{}
	c09DriveWriter(wl, w, wc)
	return w.Calls
}

// leakCheck polls until no goroutine with a bgzf frame remains.
func leakCheck(r *core.Result, cfg string) {
	var survivors []string
	blockedStreak := 0
	for i := 0; i < 400; i++ {
		survivors = core.LibGoroutines("github.com/biogo/hts/bgzf.")
		if len(survivors) == 0 {
			return
		}
		allBlocked := true
		for _, g := range survivors {
			hd := g
			if j := strings.IndexByte(g, '\n'); j > 0 {
				hd = g[:j]
			}
			if !(strings.Contains(hd, "chan receive") || strings.Contains(hd, "chan send") || strings.Contains(hd, "select") || strings.Contains(hd, "semacquire") || strings.Contains(hd, "sync.")) {
				allBlocked = false
			}
		}
		if allBlocked {
			blockedStreak++
		} else {
			blockedStreak = 0
		}
		if blockedStreak >= 60 {
			break
		}
		runtime.Gosched()
		time.Sleep(time.Millisecond)
	}
	if len(survivors) > 0 {
		r.Violate("leak|"+core.TopLibFrame(survivors[0]), "%s: %d goroutine(s) of the library remain blocked after Close:\n%s", cfg, len(survivors), survivors[0])
	}
}

func c09Writer(r *core.Result, c core.Case) {
	wl, wc, k, mode := c.Str("wl"), c.Int("wc"), c.Int("k"), c.Int("mode")
	cfg := fmt.Sprintf("writer workload=%s wc=%d fault at underlying write %d of %d mode=%s delay=%dms", wl, wc, k, c.Int("K"), []string{"error", "partial+error", "transient-error", "transient-error-with-full-count"}[mode], c.Int("delay"))
	w := &mon.RecWriter{FailAt: k, Partial: mode == 1, FailOnce: mode == 2 || mode == 3, FullCount: mode == 3}
	if d := c.Int("delay"); d > 0 {
		w.Delay = func(call int) time.Duration {
			if call == k {
				return time.Duration(d) * time.Millisecond
			}
			return 0
		}
	}
	calls := c09DriveWriter(wl, w, wc)
	r.FP = core.Hash(cfg)
	r.Nontrivial = w.Failed
	r.Sample = map[string]any{"config": cfg, "fault_hit": w.Failed, "api_calls": len(calls)}
	var seq []string
	sawErr := false
	var closeErr error
	for _, cl := range calls {
		e := "nil"
		if cl.err != nil {
			e = cl.err.Error()
		}
		seq = append(seq, cl.name+"="+e)
		if strings.HasPrefix(cl.name, "Close") {
			if cl.name == "Close" {
				closeErr = cl.err
			}
			continue
		}
		if sawErr && cl.err == nil {
			r.Violate("writer|error-forgotten", "%s: %s returned nil after an earlier call had reported the failure\ncalls: %v", cfg, cl.name, seq)
			break
		}
		if cl.err != nil {
			sawErr = true
		}
	}
	if len(calls) == 1 && calls[0].name == "bam.NewWriter" && calls[0].err != nil {
		closeErr = calls[0].err // the constructor reported the failure; there is nothing to Close
	}
	if w.Failed && closeErr == nil {
		r.Violate("writer|fault-swallowed", "%s: an underlying write failed but Close returned nil\ncalls: %v", cfg, seq)
	}
	if !w.Failed && (closeErr != nil || sawErr) {
		r.Violate("writer|spurious-error", "%s: no fault was hit but the writer reported an error\ncalls: %v", cfg, seq)
	}
	if w.Failed {
		r.Count("writer_faults_hit", 1)
	}
	leakCheck(r, cfg)
}

// ---- reader side ----

func c09File(seed int64) *gen.File {
	rng := rand.New(rand.NewSource(core.SubSeed(seed, "c09file")))
	for {
		f := gen.RandFile(rng, gen.FileOpts{MaxBlocks: 14, SmallOnly: true})
		if len(f.Blocks) >= 10 && len(f.Flat) > 2000 {
			return f
		}
	}
}

// c09DriveReader runs a reader workload tolerant of errors. It returns the
// number of violations it recorded.
func c09DriveReader(r *core.Result, cfg, wl string, f *gen.File, src io.Reader, rd, cch int, seed int64, fr *mon.FaultReader) {
	rr, err := bgzf.NewReader(src, rd)
	if err != nil {
		if err == io.EOF || errors.Is(err, io.EOF) && !errors.Is(err, io.ErrUnexpectedEOF) {
			r.Violate("reader|fault-as-eof", "%s: NewReader reported io.EOF on a non-empty stream", cfg)
		}
		if !fr.Hit {
			r.Violate("reader|spurious-error", "%s: NewReader failed without a fault: %v", cfg, err)
		}
		return
	}
	if cch == 1 {
		rr.SetCache(cache.NewLRU(2))
	}
	m := &rmodel{f: f}
	rng := rand.New(rand.NewSource(seed))
	lost := false // position unknown after an error until the next Seek
	var hist []string
	bad := func(cls, format string, a ...any) {
		h := hist
		if len(h) > 24 {
			h = h[len(h)-24:]
		}
		r.Violate("reader|"+cls, "%s: %s\nfault hit=%v at call kind %q\nlast operations: %v", cfg, fmt.Sprintf(format, a...), fr.Hit, fr.HitKind, h)
	}
	doSeek := func(bi, off int) bool {
		b := f.Blocks[bi]
		hist = append(hist, fmt.Sprintf("Seek(blk%d+%d)", bi, off))
		if os.Getenv("VERIF_TRACE") != "" {
			fmt.Fprintf(os.Stderr, "OP Seek(blk%d base=%d +%d) faultcalls=%d\n", bi, b.Base, off, fr.Calls)
		}
		err := rr.Seek(bgzf.Offset{File: b.Base, Block: uint16(off)})
		if err != nil {
			hist = append(hist, "->"+err.Error())
			if !fr.Hit {
				bad("spurious-error", "Seek failed without a fault: %v", err)
			}
			if err == io.EOF {
				bad("fault-as-eof", "Seek reported io.EOF")
			}
			lost = true
			return false
		}
		m.p = b.Start + int64(off)
		lost = false
		return true
	}
	doRead := func(n int) (stop bool) {
		hist = append(hist, fmt.Sprintf("Read(%d)", n))
		if os.Getenv("VERIF_TRACE") != "" {
			fmt.Fprintf(os.Stderr, "OP Read(%d) at %d lost=%v faultcalls=%d hit=%v\n", n, m.p, lost, fr.Calls, fr.Hit)
		}
		buf := make([]byte, n)
		k, err := rr.Read(buf)
		if lost {
			if err == nil && k > 0 {
				// Reading on after an error without a Seek: position is not defined by the property.
			}
			return err != nil
		}
		before := m.p
		want, wantEOF := m.expectRead(n)
		if k > len(want) || !bytes.Equal(buf[:k], want[:k]) {
			bad("wrong-bytes", "Read(%d) at logical position %d returned %d bytes that differ from the flat data (%d expected)", n, before, k, len(want))
			return true
		}
		switch {
		case err == nil:
			if k != len(want) || (wantEOF && n > 0) {
				bad("short-read", "Read(%d) at logical position %d returned (%d, nil), expected %d bytes eof=%v", n, before, k, len(want), wantEOF)
				return true
			}
		case err == io.EOF:
			if !(wantEOF || (n == 0 && before == m.total())) || k != len(want) {
				bad("early-eof", "Read(%d) at logical position %d of %d returned (%d, io.EOF); the flat data has %d bytes for it (fault swallowed as a clean end)", n, before, m.total(), k, len(want))
				return true
			}
			return m.p == m.total()
		default:
			hist = append(hist, "->"+err.Error())
			if !fr.Hit {
				bad("spurious-error", "Read failed without a fault: %v", err)
			}
			lost = true
			return false
		}
		return false
	}
	switch wl {
	case "readall":
		for i := 0; i < 10000; i++ {
			if doRead([]int{1, 100, 700, 5000}[i%4]) || lost {
				break
			}
		}
		if lost {
			// recover: seek back to the start and read a little
			if doSeek(0, 0) {
				doRead(300)
			}
		}
	case "history":
		lastBi, lastOff, seekFailed := 0, 0, false
		for i := 0; i < 14; i++ {
			if lost || rng.Intn(3) == 0 {
				bi := rng.Intn(len(f.Blocks))
				off := 0
				if f.Blocks[bi].Len > 0 && rng.Intn(2) == 0 {
					off = rng.Intn(f.Blocks[bi].Len + 1)
				}
				if seekFailed && rng.Intn(2) == 0 {
					bi, off = lastBi, lastOff // retry the Seek that failed
				}
				lastBi, lastOff = bi, off
				seekFailed = !doSeek(bi, off)
				if !seekFailed && rng.Intn(2) == 0 {
					doRead([]int{1, 50, 400}[rng.Intn(3)])
				}
				continue
			}
			if rng.Intn(5) == 0 {
				rr.Blocked = !rr.Blocked
				m.blocked = rr.Blocked
				hist = append(hist, "ToggleBlocked")
				continue
			}
			doRead([]int{1, 50, 400, 3000}[rng.Intn(4)])
		}
	case "chunkreader":
		// three chunks over the data blocks
		var data []int
		for i, b := range f.Blocks {
			if b.Len > 1 {
				data = append(data, i)
			}
		}
		var chunks []bgzf.Chunk
		var want []byte
		for j := 0; j+1 < len(data) && len(chunks) < 3; j += 2 {
			b0, b1 := f.Blocks[data[j]], f.Blocks[data[j+1]]
			beg := bgzf.Offset{File: b0.Base, Block: uint16(b0.Len / 2)}
			end := bgzf.Offset{File: b1.Base, Block: uint16(b1.Len / 2)}
			chunks = append(chunks, bgzf.Chunk{Begin: beg, End: end})
			want = append(want, f.Flat[b0.Start+int64(b0.Len/2):b1.Start+int64(b1.Len/2)]...)
		}
		hist = append(hist, fmt.Sprintf("ChunkReader(%v)", chunks))
		cr, err := index.NewChunkReader(rr, chunks)
		if err != nil {
			if !fr.Hit {
				bad("spurious-error", "NewChunkReader failed without a fault: %v", err)
			}
			break
		}
		var got []byte
		buf := make([]byte, 777)
		for i := 0; i < 100000; i++ {
			k, err := cr.Read(buf)
			got = append(got, buf[:k]...)
			if err == io.EOF {
				if !bytes.Equal(got, want) {
					bad("chunkreader-early-eof", "ChunkReader reported io.EOF after %d of %d bytes (or wrong bytes)", len(got), len(want))
				}
				break
			}
			if err != nil {
				if !fr.Hit {
					bad("spurious-error", "ChunkReader.Read failed without a fault: %v", err)
				}
				if len(got) > len(want) || !bytes.Equal(got, want[:len(got)]) {
					bad("wrong-bytes", "ChunkReader returned wrong bytes before the error")
				}
				break
			}
		}
		cr.Close()
	}
	cerr := rr.Close()
	_ = cerr
}

func c09CountReader(seed int64, wl string, rd, cch, br int) (int, int) {
	f := c09File(seed)
	fr := mon.NewFaultReader(f.Bytes)
	var src io.Reader = fr
	if br == 1 {
		src = mon.FaultByteReader{FaultReader: fr}
	}
	if br == 2 {
		fr.MaxRead = 61
		src = struct{ io.Reader }{fr}
	}
	r := core.NewResult()
	c09DriveReader(r, "count", wl, f, src, rd, cch, core.SubSeed(seed, "hist", wl), fr)
	calls := fr.Calls
	fs := mon.NewFaultReader(f.Bytes)
	fs.SeekOnly = true
	src = fs
	if br == 1 {
		src = mon.FaultByteReader{FaultReader: fs}
	}
	c09DriveReader(r, "count", wl, f, src, rd, cch, core.SubSeed(seed, "hist", wl), fs)
	return calls, fs.Calls
}

func c09Reader(r *core.Result, c core.Case) {
	wl, rd, cch, br, k, mode := c.Str("wl"), c.Int("rd"), c.Int("cache"), c.Int("byter"), c.Int("k"), c.Int("mode")
	fseed := c.Int64("fseed")
	f := c09File(fseed)
	fr := mon.NewFaultReader(f.Bytes)
	fr.FailAt = k
	fr.Partial = mode == 1
	fr.SeekOnly = mode == 2
	fr.Delay = time.Duration(c.Int("delay")) * time.Millisecond
	var src io.Reader = fr
	if br == 1 {
		src = mon.FaultByteReader{FaultReader: fr}
	}
	if br == 2 {
		fr.MaxRead = 61
		src = struct{ io.Reader }{fr} // no Seek, no ReadByte
	}
	cfg := fmt.Sprintf("reader workload=%s rd=%d cache=%v source=%s fault at underlying call %d mode=%s delay=%dms", wl, rd, cch == 1, []string{"seekable", "seekable+ByteReader", "not seekable"}[br], k, []string{"error", "partial+error", "seek-error"}[mode], c.Int("delay"))
	c09DriveReader(r, cfg, wl, f, src, rd, cch, core.SubSeed(fseed, "hist", wl), fr)
	r.FP = core.Hash(cfg, c.Int("rep"))
	r.Nontrivial = fr.Hit
	if fr.Hit {
		r.Count("reader_faults_hit", 1)
		r.Add("reader_fault_call_kinds", fr.HitKind)
	}
	r.Sample = map[string]any{"config": cfg, "fault_hit": fr.Hit, "fault_call_kind": fr.HitKind}
	leakCheck(r, cfg)
}

func c09Run(c core.Case) *core.Result {
	r := core.NewResult()
	t := mon.Begin(c.Seed, int(c.Seed%4))
	defer mon.End()
	if c.Kind == "writer" {
		c09Writer(r, c)
	} else {
		c09Reader(r, c)
	}
	r.Add("interleavings", t.Shape())
	return r
}
