package prop

import (
	"bytes"
	"fmt"
	"sync/atomic"
	"time"

	"github.com/biogo/hts/bam"
	"github.com/biogo/hts/bgzf"
	"github.com/biogo/hts/sam"

	"verif/core"
	"verif/gen"
	"verif/mon"
	"verif/oracle"
)

func init() {
	core.Register(&core.Prop{
		ID:    "C12",
		Level: "exploration",
		Rule: "a case is (write script from the C01 generator with Flush/Wait at arbitrary points, wc in {1,2,3,4,8}, level, hook level, seeded 0-3 ms delays of underlying writes). The io.Writer handed to the Writer records the delivered length after every underlying Write returns, with the number of bytes offered to the API at that moment. " +
			"Oracle (independent framing parser + flate): every recorded length is a member boundary of the final stream; the members decode, in order, to a prefix of the written data; no snapshot holds more than was offered; after Flush then Wait both returned nil the delivered members decode to at least all data written before that Flush; after Close nil everything followed by the EOF marker. bam cases: when bam.NewWriter returns, the delivered bytes already decode to the complete binary header. " +
			"durability-fault cases make the k-th underlying write fail (slowly, once or from then on): a call that returns the fault ends the case, but a Flush+Wait or Close that returns nil still promises the same. Non-trivial: >= 2 data blocks delivered and >= 1 Flush+Wait checkpoint. Interleavings observed = distinct hook-trace shapes.",
		Floor:       map[string]int{"quick": 120, "thorough": 1500},
		Plan:        c12Plan,
		Run:         c12Run,
		Assumptions: []string{"durability-fault cases judge only what nil returns promise (Flush+Wait nil, Close nil); that a fault is reported by some call is C09's clause", "schedules are sampled"},
		TimeoutS:    map[string]int{"quick": 900, "thorough": 3400},
	})
}

func c12Plan(seed int64, tier string) []core.Case {
	n := 300
	if tier == "thorough" {
		n = 4000
	}
	wcs := []int64{1, 2, 3, 4, 8}
	var cs []core.Case
	for i := 0; i < n; i++ {
		s := core.SubSeed(seed, "c12", i)
		rng := core.Case{Seed: s}.Rng()
		c := core.Case{Kind: "durability", Seed: s, P: map[string]int64{
			"wc":    wcs[rng.Intn(len(wcs))],
			"level": int64(rng.Intn(11) - 1),
			"hook":  int64(rng.Intn(4)),
			"delay": int64(rng.Intn(3)),
			"procs": []int64{0, 0, 1, 2, 16}[rng.Intn(5)],
		}}
		if i%10 == 9 {
			c.Kind = "bam-header"
		}
		if i%10 == 4 || i%10 == 6 {
			// the underlying writer fails at its k-th write, slowly, so that
			// the failure lands while Wait or Close is waiting
			c.Kind = "durability-fault"
			c.P["failat"] = int64(1 + rng.Intn(6))
			c.P["delay"] = int64(1 + rng.Intn(2))
		}
		if i%7 == 0 {
			c.Race = true
		}
		cs = append(cs, c)
	}
	return cs
}

// checkDelivered verifies the snapshot discipline on a recording writer
// against the model data. It returns the parsed members.
func checkDelivered(r *core.Result, cfg string, w *mon.RecWriter, model []byte) ([]*oracle.Member, []int) {
	out := w.Bytes()
	ms, err := oracle.ParseStream(out)
	if err != nil {
		r.Violate("stream|framing", "%s: delivered bytes are not a sequence of whole BGZF members: %v", cfg, err)
		return nil, nil
	}
	// cumulative boundaries and decoded lengths
	bound := map[int]int{0: 0}
	var ends []int
	dec := 0
	off := 0
	var all []byte
	for _, m := range ms {
		off += m.Len
		dec += len(m.Data)
		bound[off] = dec
		ends = append(ends, off)
		all = append(all, m.Data...)
	}
	if len(all) > len(model) || !bytes.Equal(all, model[:len(all)]) {
		r.Violate("stream|not-prefix", "%s: the delivered members decode to %d bytes that are not a prefix of the %d bytes written, in write order", cfg, len(all), len(model))
		return ms, ends
	}
	for i, s := range w.Snaps {
		d, ok := bound[s.Len]
		if !ok {
			r.Violate("snapshot|partial-block", "%s: after underlying write %d returned, %d bytes were delivered, which is not a block boundary (a crash here leaves a partial block)", cfg, i+1, s.Len)
			return ms, ends
		}
		if w.Offered != nil && int64(d) > s.Offered {
			r.Violate("snapshot|future-data", "%s: after underlying write %d the delivered blocks decode to %d bytes but only %d had been written", cfg, i+1, d, s.Offered)
			return ms, ends
		}
	}
	return ms, ends
}

func decodedLen(b []byte) (int, error) {
	ms, err := oracle.ParseStream(b)
	n := 0
	for _, m := range ms {
		n += len(m.Data)
	}
	return n, err
}

func c12Run(c core.Case) *core.Result {
	r := core.NewResult()
	rng := c.Rng()
	wc, level := c.Int("wc"), c.Int("level")
	cfg := fmt.Sprintf("wc=%d level=%d hook=%d delay=%d procs=%d", wc, level, c.Int("hook"), c.Int("delay"), c.Int("procs"))
	var offered int64
	dseed := rng.Int63()
	w := &mon.RecWriter{Offered: &offered}
	if dl := c.Int("delay"); dl > 0 {
		w.Delay = func(call int) time.Duration {
			x := core.SubSeed(dseed, call) % 1000
			if dl == 1 {
				return time.Duration(x%300) * time.Microsecond
			}
			return time.Duration(x*3) * time.Microsecond
		}
	}
	faulty := c.Kind == "durability-fault"
	if faulty {
		w.FailAt = c.Int("failat")
		w.FailOnce = rng.Intn(3) == 0
		cfg += fmt.Sprintf(" underlying write %d fails (once=%v)", w.FailAt, w.FailOnce)
	}
	if c.Kind == "bam-header" {
		w.Offered = nil
		if c.ID%3 == 0 {
			// the header write fails, slowly: NewWriter returning nil still promises the header
			w.FailAt = 1 + rng.Intn(2)
			if w.Delay == nil {
				w.Delay = func(int) time.Duration { return 300 * time.Microsecond }
			}
			cfg += fmt.Sprintf(" underlying write %d fails", w.FailAt)
		}
		return c12Bam(r, c, w, cfg)
	}
	// reported: an API call returned the injected fault; from then on nothing
	// is promised and the case ends (C09 judges that some call reports it).
	reported := func(op string, err error) bool {
		if faulty && err != nil {
			r.Count("fault_reported_by_"+op, 1)
			r.Nontrivial = true
			return true
		}
		return false
	}
	script := gen.RandScript(rng, 16, 6*gen.BlockSize)
	// Make Flush→Wait checkpoints common: insert one or two pairs.
	for k := rng.Intn(3); k > 0; k-- {
		at := rng.Intn(len(script.Ops) + 1)
		ops := append([]gen.WOp(nil), script.Ops[:at]...)
		ops = append(ops, gen.WOp{Op: 'F'})
		if rng.Intn(3) == 0 { // data between the Flush and the Wait
			ops = append(ops, gen.WOp{Op: 'W', Len: rng.Intn(70000), Content: rng.Intn(4)})
		}
		ops = append(ops, gen.WOp{Op: 'A'})
		script.Ops = append(ops, script.Ops[at:]...)
	}
	payloads := script.Payloads(rng)
	var model []byte
	for _, p := range payloads {
		model = append(model, p...)
	}
	r.FP = core.Hash(script.String(), script.Total(), cfg)
	r.Sample = map[string]any{"script": script.String(), "config": cfg}
	checkpoints := 0
	withProcs(c.Int("procs"), func() {
		traced(r, c.Seed, c.Int("hook"), "interleavings", func(t *mon.Tracer) {
			bw, err := bgzf.NewWriterLevel(w, level, wc)
			if err != nil {
				r.Violate("writer|new", "%s: %v", cfg, err)
				return
			}
			written := 0
			flushed := -1
			for i, op := range script.Ops {
				switch op.Op {
				case 'W':
					atomic.AddInt64(&offered, int64(op.Len))
					scratch := append([]byte(nil), payloads[i]...)
					n, err := bw.Write(scratch)
					for k := range scratch {
						scratch[k] ^= 0x5a // the writer must not retain the caller's buffer
					}
					if reported("Write", err) {
						bw.Close()
						return
					}
					if err != nil || n != op.Len {
						r.Violate("writer|call-error", "%s: op %d Write(%d) = (%d, %v)", cfg, i, op.Len, n, err)
						bw.Close()
						return
					}
					written += op.Len
				case 'F':
					if err := bw.Flush(); reported("Flush", err) {
						bw.Close()
						return
					} else if err != nil {
						r.Violate("writer|call-error", "%s: op %d Flush: %v", cfg, i, err)
						bw.Close()
						return
					}
					flushed = written
				case 'A':
					if err := bw.Wait(); reported("Wait", err) {
						bw.Close()
						return
					} else if err != nil {
						r.Violate("writer|call-error", "%s: op %d Wait: %v", cfg, i, err)
						bw.Close()
						return
					}
					if flushed >= 0 {
						checkpoints++
						got, perr := decodedLen(w.Bytes())
						if perr != nil {
							r.Violate("flushwait|framing", "%s: after Flush+Wait (op %d) the delivered bytes do not parse: %v", cfg, i, perr)
							bw.Close()
							return
						}
						if got < flushed {
							r.Violate("flushwait|not-durable", "%s script%s: after Flush then Wait returned nil (op %d) the delivered blocks decode to %d bytes, but %d bytes were written before the Flush", cfg, script.String(), i, got, flushed)
							bw.Close()
							return
						}
					}
				}
			}
			if err := bw.Close(); reported("Close", err) {
				return
			} else if err != nil {
				r.Violate("writer|close-error", "%s: Close: %v", cfg, err)
				return
			}
			if faulty {
				r.Count("fault_not_reached_or_close_nil", 1)
			}
			out := w.Bytes()
			ms, _ := checkDelivered(r, cfg, w, model)
			if ms == nil {
				return
			}
			got := 0
			for _, m := range ms {
				got += len(m.Data)
			}
			if got != len(model) {
				r.Violate("close|not-durable", "%s: after Close returned nil the delivered blocks decode to %d of %d bytes", cfg, got, len(model))
			}
			if !oracle.HasEOFMarker(out) {
				r.Violate("close|no-eof-marker", "%s: after Close returned nil the stream does not end with the EOF marker", cfg)
			}
			blocks := 0
			for _, m := range ms {
				if len(m.Data) > 0 {
					blocks++
				}
			}
			r.Count("data_blocks", int64(blocks))
			r.Count("snapshots", int64(len(w.Snaps)))
			r.Count("flushwait_checkpoints", int64(checkpoints))
			r.Nontrivial = blocks >= 2 && checkpoints >= 1
		})
	})
	return r
}

func c12Bam(r *core.Result, c core.Case, w *mon.RecWriter, cfg string) *core.Result {
	rng := c.Rng()
	nref := rng.Intn(2000)
	var refs []*sam.Reference
	for i := 0; i < nref; i++ {
		ref, err := sam.NewReference(fmt.Sprintf("chr%d_%d", i, rng.Intn(1000)), "", "", 1+rng.Intn(1<<28), nil, nil)
		if err != nil {
			panic(err)
		}
		refs = append(refs, ref)
	}
	h, err := sam.NewHeader(nil, refs)
	if err != nil {
		panic(err)
	}
	h.Version = "1.6"
	want, _ := h.MarshalBinary()
	r.FP = core.Hash("bam-header", nref, cfg)
	r.Sample = map[string]any{"kind": "bam.NewWriter", "references": nref, "header_bytes": len(want), "config": cfg}
	withProcs(c.Int("procs"), func() {
		traced(r, c.Seed, c.Int("hook"), "interleavings", func(t *mon.Tracer) {
			bw, err := bam.NewWriterLevel(w, h, c.Int("level"), c.Int("wc"))
			if err != nil {
				if w.FailAt > 0 {
					r.Count("fault_reported_by_NewWriter", 1)
					r.Nontrivial = true
					return
				}
				r.Violate("bam|new", "%s: NewWriter: %v", cfg, err)
				return
			}
			snap := w.Bytes()
			ms, perr := oracle.ParseStream(snap)
			if perr != nil {
				r.Violate("bam|header-framing", "%s: when bam.NewWriter returned the delivered bytes do not parse as whole blocks: %v", cfg, perr)
			} else {
				var got []byte
				for _, m := range ms {
					got = append(got, m.Data...)
				}
				if !bytes.Equal(got, want) {
					r.Violate("bam|header-not-durable", "%s: when bam.NewWriter returned, the delivered blocks decode to %d bytes; the binary header is %d bytes", cfg, len(got), len(want))
				}
			}
			if err := bw.Close(); err != nil {
				if w.FailAt > 0 {
					r.Count("fault_reported_by_Close", 1)
					return
				}
				r.Violate("bam|close", "%s: Close: %v", cfg, err)
			}
			checkDelivered(r, cfg, w, want)
			r.Count("bam_header_cases", 1)
			r.Nontrivial = len(want) > gen.BlockSize
		})
	})
	return r
}
