package prop

import (
	"bytes"
	"errors"
	"fmt"
	"io"
	"math/rand"
	"runtime"

	"github.com/biogo/hts/bgzf"

	"verif/core"
	"verif/gen"
	"verif/mon"
)

// onlyReader hides every method but Read.
type onlyReader struct{ r io.Reader }

func (o onlyReader) Read(p []byte) (int, error) { return o.r.Read(p) }

// chunkyReader returns short reads of seeded sizes (legal io.Reader behaviour).
type chunkyReader struct {
	r   io.Reader
	rng *rand.Rand
}

func (c *chunkyReader) Read(p []byte) (int, error) {
	if len(p) > 1 {
		n := 1 + c.rng.Intn(len(p))
		if c.rng.Intn(3) == 0 {
			n = 1 + c.rng.Intn(7)
			if n > len(p) {
				n = len(p)
			}
		}
		p = p[:n]
	}
	return c.r.Read(p)
}

// eagerEOF is a non-seekable io.Reader + io.ByteReader that reports io.EOF
// together with the last bytes (allowed by the io.Reader contract).
type eagerEOF struct {
	b   []byte
	pos int
	max int // when > 0, at most max bytes per Read
}

func (e *eagerEOF) Read(p []byte) (int, error) {
	if e.max > 0 && len(p) > e.max {
		p = p[:e.max]
	}
	n := copy(p, e.b[e.pos:])
	e.pos += n
	if e.pos >= len(e.b) {
		return n, io.EOF
	}
	return n, nil
}

func (e *eagerEOF) ReadByte() (byte, error) {
	if e.pos >= len(e.b) {
		return 0, io.EOF
	}
	c := e.b[e.pos]
	e.pos++
	return c, nil
}

// wrapSource returns the stream as one of four reader kinds.
func wrapSource(b []byte, kind int, rng *rand.Rand) io.Reader {
	switch kind {
	case 3:
		return &eagerEOF{b: b}
	case 1:
		return onlyReader{bytes.NewReader(b)}
	case 2:
		// own PRNG: the library reads the source from its worker goroutines
		return &chunkyReader{r: bytes.NewReader(b), rng: rand.New(rand.NewSource(rng.Int63()))}
	}
	return bytes.NewReader(b)
}

// runScript drives a bgzf.Writer with a script; returns the first error.
func runScript(w *bgzf.Writer, s gen.Script, payloads [][]byte) error {
	for i, op := range s.Ops {
		switch op.Op {
		case 'W':
			// io.Writer must not retain p: hand over a scratch copy and
			// overwrite it as soon as Write has returned.
			scratch := append([]byte(nil), payloads[i]...)
			n, err := w.Write(scratch)
			for k := range scratch {
				scratch[k] ^= 0x5a
			}
			if err != nil {
				return fmt.Errorf("op %d Write(%d bytes): %v", i, op.Len, err)
			}
			if n != op.Len {
				return fmt.Errorf("op %d Write(%d bytes) returned n=%d with nil error", i, op.Len, n)
			}
		case 'F':
			if err := w.Flush(); err != nil {
				return fmt.Errorf("op %d Flush: %v", i, err)
			}
		case 'A':
			if err := w.Wait(); err != nil {
				return fmt.Errorf("op %d Wait: %v", i, err)
			}
		}
	}
	return nil
}

var readLens = []int{0, 1, 2, 7, 4096, gen.BlockSize, gen.BlockSize + 1, 131072}

// readBack reads r with a seeded mix of Read(n) and ReadByte until the first
// error and checks every step against want. It returns a violation text or "".
func readBack(r *bgzf.Reader, want []byte, rng *rand.Rand) (string, string) {
	pos := 0
	steps := 0
	zeroRun := 0
	mode := rng.Intn(4) // 0 mixed, 1 big reads, 2 byte reads near block ends, 3 small reads
	for {
		steps++
		if steps > 40*len(want)/1000+200000 {
			return "no-progress", fmt.Sprintf("reader made %d calls without reaching the end (pos %d of %d)", steps, pos, len(want))
		}
		useByte := false
		var n int
		switch mode {
		case 1:
			n = []int{4096, gen.BlockSize, gen.BlockSize + 1, 131072}[rng.Intn(4)]
		case 2:
			// byte reads around block-size multiples, bigger reads elsewhere
			d := pos % gen.BlockSize
			if d < 3 || d > gen.BlockSize-3 || rng.Intn(50) == 0 {
				useByte = true
			} else {
				n = gen.BlockSize - d - 1 - rng.Intn(2)
				if n <= 0 {
					n = 1
				}
			}
		case 3:
			n = []int{0, 1, 2, 7, 300}[rng.Intn(5)]
			if len(want) > 200000 {
				n = 4096 + rng.Intn(5)
			}
		default:
			if rng.Intn(4) == 0 {
				useByte = true
			} else {
				n = readLens[rng.Intn(len(readLens))]
			}
		}
		if useByte {
			b, err := r.ReadByte()
			if err == nil {
				if pos >= len(want) {
					return "extra-data", fmt.Sprintf("ReadByte returned a byte at position %d beyond the %d bytes written", pos, len(want))
				}
				if b != want[pos] {
					return "wrong-bytes", fmt.Sprintf("ReadByte at position %d returned %#02x, written %#02x", pos, b, want[pos])
				}
				pos++
				continue
			}
			if err != io.EOF {
				return "read-error", fmt.Sprintf("ReadByte at position %d: %v", pos, err)
			}
			// (b, io.EOF): the reader returns the last byte together with EOF.
			if pos < len(want) {
				if b != want[pos] || pos+1 != len(want) {
					return "early-eof", fmt.Sprintf("ReadByte reported io.EOF at position %d of %d", pos, len(want))
				}
				pos++
			}
			break
		}
		buf := make([]byte, n)
		k, err := r.Read(buf)
		if k < 0 || k > n {
			return "bad-count", fmt.Sprintf("Read(%d) returned n=%d", n, k)
		}
		if pos+k > len(want) {
			return "extra-data", fmt.Sprintf("Read(%d) at position %d returned %d bytes, only %d were written", n, pos, k, len(want)-pos)
		}
		if !bytes.Equal(buf[:k], want[pos:pos+k]) {
			i := 0
			for i < k && buf[i] == want[pos+i] {
				i++
			}
			return "wrong-bytes", fmt.Sprintf("Read(%d) at position %d: byte %d of the result is %#02x, written %#02x", n, pos, i, buf[i], want[pos+i])
		}
		pos += k
		if err == nil {
			if k < n {
				return "short-read", fmt.Sprintf("Read(%d) at position %d returned %d bytes and a nil error before the end of the data (%d)", n, pos-k, k, len(want))
			}
			if n == 0 {
				zeroRun++
				if zeroRun > 1000 {
					return "no-progress", "1000 consecutive Read(0) calls"
				}
			}
			continue
		}
		if err != io.EOF {
			return "read-error", fmt.Sprintf("Read(%d) at position %d: %v", n, pos-k, err)
		}
		if pos != len(want) {
			return "early-eof", fmt.Sprintf("Read(%d) reported io.EOF at position %d of %d", n, pos, len(want))
		}
		break
	}
	if pos != len(want) {
		return "early-eof", fmt.Sprintf("io.EOF at position %d of %d", pos, len(want))
	}
	// EOF is sticky.
	if k, err := r.Read(make([]byte, 10)); k != 0 || err != io.EOF {
		return "eof-not-sticky", fmt.Sprintf("Read after io.EOF returned (%d, %v)", k, err)
	}
	return "", ""
}

// withProcs runs f with GOMAXPROCS set to n (0 = leave).
func withProcs(n int, f func()) {
	if n > 0 {
		old := runtime.GOMAXPROCS(n)
		defer runtime.GOMAXPROCS(old)
	}
	f()
}

// traced runs f under a widening tracer of the given level and records the
// observed interleaving shape in r.
func traced(r *core.Result, seed int64, level int, set string, f func(t *mon.Tracer)) {
	if mon.RaceEnabled && level == 0 {
		// "pure race" run: no tracer is installed, so the hook adds no
		// synchronisation that could hide a race from the detector.
		f(mon.Detached())
		r.Count("pure_race_runs", 1)
		return
	}
	t := mon.Begin(seed, level)
	defer mon.End()
	f(t)
	r.Add(set, t.Shape())
	r.Count("hook_events", int64(len(t.Events())))
}

var errInjected = errors.New("injected fault")
