package prop

import (
	"fmt"
	"math/rand"

	"github.com/biogo/hts/bam"
	"github.com/biogo/hts/csi"
	"github.com/biogo/hts/sam"

	"verif/core"
	"verif/oracle"
)

func init() {
	core.Register(&core.Prop{
		ID:    "C16",
		Level: "exploration",
		Rule: "record cases: random (pos, flags, CIGAR over M I D N S H P = X and B, op lengths up to 2^28-1, positions biased to bin edges) compared with oracle/cigar.go (SAMv1 1.4.6/4.2.1) for End, Len, Lengths, IsValid and Bin. " +
			"bin cases: internal.BinFor/OverlappingBinsFor and csi reg2bin/reg2bins (through the verif re-exports) compared with (a) the C functions of SAMv1 5.3 / CSIv1 transliterated and (b) a shift-free definition of the scheme (smallest containing bin; exactly the set of intersecting bins: no duplicates, all intersect, count equal), plus the direct clause 'A overlaps B => bin(A) in bins(B)'. " +
			"quick: level-edge tile pairs and random intervals; thorough: BinFor exhaustively over all 2^15x2^15/2 (begin tile, end tile) pairs x 4 in-tile offset corners, OverlappingBinsFor exhaustively for spans <= 64 tiles and sampled above; CSI exhaustively over all intervals of geometries (1,1),(1,2),(2,2),(3,2),(1,3), sampled for (14,5),(14,6),(12,4),(10,3),(6,2),(4,2) and the >32-bit coordinate geometries (14,7),(12,8),(16,6),(10,9),(20,7). " +
			"distinct_nontrivial counts distinct intervals/records in partitioning cases; an interval is non-trivial when it crosses at least one finest-level boundary or a record has >= 2 CIGAR ops.",
		Floor:       map[string]int{"quick": 20000, "thorough": 1000000},
		Plan:        c16Plan,
		Run:         c16Run,
		Exhaustive:  false,
		ExhaustNote: "thorough: BAI BinFor tile-pair space and small CSI geometries are enumerated completely; records and large geometries are sampled",
		Assumptions: []string{"oracle/bins.go (a) is a faithful transliteration of the specifications' C code", "for the non-standard B operation the oracle follows the library's documented consumption table", "End of a mapped record whose CIGAR consumes no reference may be pos or pos+1 (the specification only fixes the binning length, one)"},
		TimeoutS:    map[string]int{"quick": 600, "thorough": 3400},
	})
}

func c16Plan(seed int64, tier string) []core.Case {
	var cs []core.Case
	nrec, nrand := 16, 16
	if tier == "thorough" {
		nrec, nrand = 128, 64
		for i := int64(0); i < 256; i++ {
			cs = append(cs, core.Case{Kind: "bai-exh", P: map[string]int64{"lo": i * 128, "hi": (i + 1) * 128}})
		}
	}
	for i := 0; i < nrec; i++ {
		cs = append(cs, core.Case{Kind: "record", Seed: core.SubSeed(seed, "rec", i), P: map[string]int64{"n": 20000}})
	}
	cs = append(cs, core.Case{Kind: "bai-edge"})
	for i := 0; i < nrand; i++ {
		cs = append(cs, core.Case{Kind: "bai-random", Seed: core.SubSeed(seed, "bair", i), P: map[string]int64{"n": 30000}})
	}
	small := [][2]int64{{1, 1}, {1, 2}, {2, 2}, {3, 2}, {1, 3}}
	for _, g := range small {
		if tier != "thorough" && g[0]+3*g[1] > 9 {
			continue
		}
		cs = append(cs, core.Case{Kind: "csi-exh", P: map[string]int64{"m": g[0], "d": g[1]}})
	}
	if tier == "thorough" {
		cs = append(cs, core.Case{Kind: "csi-pairs", P: map[string]int64{"m": 1, "d": 1}})
		cs = append(cs, core.Case{Kind: "csi-pairs", P: map[string]int64{"m": 1, "d": 2}})
	} else {
		cs = append(cs, core.Case{Kind: "csi-pairs", P: map[string]int64{"m": 1, "d": 1}})
	}
	big := [][2]int64{{14, 5}, {14, 6}, {12, 4}, {10, 3}, {6, 2}, {4, 2}, {14, 7}, {12, 8}, {16, 6}, {10, 9}, {20, 7}, {11, 6}, {17, 4}, {23, 2}, {26, 1}, {8, 7}, {2, 9}, {5, 8}, {20, 3}, {14, 10}, {1, 10}}
	for _, g := range big {
		for i := 0; i < nrand/8+1; i++ {
			cs = append(cs, core.Case{Kind: "csi-random", Seed: core.SubSeed(seed, "csir", g, i), P: map[string]int64{"m": g[0], "d": g[1], "n": 40000}})
		}
	}
	return cs
}

// checkBAI compares both BAI functions against both oracles for [b,e).
func c16CheckBAI(r *core.Result, b, e int, list bool) {
	got := int64(bam.VerifBinFor(b, e))
	if s := int64(oracle.SpecReg2bin(b, e)); got != s {
		r.Violate("bai|binfor|spec", "BinFor(%d,%d) = %d, SAMv1 5.3 reg2bin = %d", b, e, got, s)
	}
	if d := oracle.DefBin(int64(b), int64(e), 14, 5); got != d {
		r.Violate("bai|binfor|def", "BinFor(%d,%d) = %d, smallest containing bin = %d", b, e, got, d)
	}
	if !list {
		return
	}
	l := bam.VerifOverlappingBinsFor(b, e)
	c16CheckList(r, "bai", u32to64(l), int64(b), int64(e), 14, 5)
	sp := oracle.SpecReg2bins(b, e)
	if len(sp) != len(l) {
		r.Violate("bai|bins|spec", "OverlappingBinsFor(%d,%d) has %d bins, SAMv1 5.3 reg2bins %d", b, e, len(l), len(sp))
	} else {
		for i := range l {
			if int(l[i]) != sp[i] {
				r.Violate("bai|bins|spec", "OverlappingBinsFor(%d,%d)[%d] = %d, SAMv1 5.3 reg2bins gives %d", b, e, i, l[i], sp[i])
				break
			}
		}
	}
}

func u32to64(l []uint32) []int64 {
	o := make([]int64, len(l))
	for i, v := range l {
		o[i] = int64(v)
	}
	return o
}

func c16CheckList(r *core.Result, scheme string, l []int64, b, e int64, m, d int) {
	want := oracle.DefBinsCount(b, e, m, d)
	if int64(len(l)) != want {
		r.Violate(scheme+"|bins|count", "bin list for [%d,%d) (minShift %d depth %d) has %d bins, %d bins intersect the interval", b, e, m, d, len(l), want)
		return
	}
	seen := make(map[int64]bool, len(l))
	for _, bin := range l {
		if seen[bin] {
			r.Violate(scheme+"|bins|dup", "bin list for [%d,%d) lists bin %d twice", b, e, bin)
			return
		}
		seen[bin] = true
		if !oracle.DefBinsContains(bin, b, e, m, d) {
			r.Violate(scheme+"|bins|foreign", "bin list for [%d,%d) (minShift %d depth %d) contains bin %d which does not intersect it", b, e, m, d, bin)
			return
		}
	}
}

func c16CheckCSI(r *core.Result, b, e int64, m, d int, list bool) {
	got := int64(csi.VerifReg2bin(b, e, uint32(m), uint32(d)))
	if s := oracle.SpecCSIReg2bin(b, e, m, d); got != s {
		r.Violate("csi|reg2bin|spec", "reg2bin(%d,%d,minShift=%d,depth=%d) = %d, CSI specification gives %d", b, e, m, d, got, s)
	}
	if df := oracle.DefBin(b, e, m, d); got != df {
		r.Violate("csi|reg2bin|def", "reg2bin(%d,%d,minShift=%d,depth=%d) = %d, smallest containing bin = %d", b, e, m, d, got, df)
	}
	if !list {
		return
	}
	l := u32to64(csi.VerifReg2bins(b, e, uint32(m), uint32(d)))
	c16CheckList(r, "csi", l, b, e, m, d)
	sp := oracle.SpecCSIReg2bins(b, e, m, d)
	if len(sp) == len(l) {
		for i := range l {
			if l[i] != sp[i] {
				r.Violate("csi|bins|spec", "reg2bins(%d,%d,%d,%d)[%d] = %d, specification gives %d", b, e, m, d, i, l[i], sp[i])
				break
			}
		}
	} else {
		r.Violate("csi|bins|spec", "reg2bins(%d,%d,%d,%d) has %d bins, specification %d", b, e, m, d, len(l), len(sp))
	}
}

var cigChars = "MIDNSHP=XB"

func c16RandCigar(rng *rand.Rand) []oracle.CigOp {
	if rng.Intn(40) == 0 {
		// a reference span of 2^k + d, k in 29..33, built from operations of
		// the maximum length: beyond the indexable range the specification's
		// reg2bin still has a value (bin 0), and intermediate results must
		// not be cut to 32 bits
		span := 1<<uint(29+rng.Intn(5)) + []int{0, 1, -1, 2, 100, 16383, 16384, rng.Intn(1 << 20)}[rng.Intn(8)]
		var c []oracle.CigOp
		for span > 0 {
			l := span
			if l > 1<<28-1 {
				l = 1<<28 - 1
			}
			c = append(c, oracle.CigOp{Op: []int{0, 2, 3, 7, 8}[rng.Intn(5)], Len: l})
			span -= l
		}
		return c
	}
	n := rng.Intn(8)
	if rng.Intn(20) == 0 {
		n = rng.Intn(60)
	}
	var c []oracle.CigOp
	// Sometimes a well-formed clip structure.
	wf := rng.Intn(2) == 0
	if wf && rng.Intn(3) == 0 {
		c = append(c, oracle.CigOp{Op: 5, Len: 1 + rng.Intn(9)})
	}
	if wf && rng.Intn(3) == 0 {
		c = append(c, oracle.CigOp{Op: 4, Len: 1 + rng.Intn(9)})
	}
	for i := 0; i < n; i++ {
		var op int
		if wf {
			op = []int{0, 1, 2, 3, 6, 7, 8, 0, 0, 9}[rng.Intn(10)]
		} else {
			op = rng.Intn(10)
		}
		var l int
		switch rng.Intn(6) {
		case 0:
			l = 0
		case 1:
			l = 1
		case 2:
			l = rng.Intn(200)
		case 3:
			l = rng.Intn(1 << 15)
		case 4:
			l = 16384*(1+rng.Intn(4)) + rng.Intn(3) - 1
		default:
			l = rng.Intn(1 << 28)
		}
		if op == 9 { // keep B small so that most stay right of the start, some do not
			l = rng.Intn(30)
		}
		c = append(c, oracle.CigOp{Op: op, Len: l})
	}
	if wf && rng.Intn(3) == 0 {
		c = append(c, oracle.CigOp{Op: 4, Len: 1 + rng.Intn(9)})
	}
	if wf && rng.Intn(3) == 0 {
		c = append(c, oracle.CigOp{Op: 5, Len: 1 + rng.Intn(9)})
	}
	return c
}

func edgePos(rng *rand.Rand) int {
	switch rng.Intn(5) {
	case 0:
		return rng.Intn(1 << 29)
	case 1:
		sh := []uint{14, 17, 20, 23, 26}[rng.Intn(5)]
		k := rng.Intn(1 << (29 - sh))
		return (k << sh) + rng.Intn(5) - 2
	case 2:
		return rng.Intn(40000)
	case 3:
		return (1 << 29) - 1 - rng.Intn(40000)
	}
	return (rng.Intn(1<<15) << 14) + []int{0, 1, 16383}[rng.Intn(3)]
}

func cigString(c []oracle.CigOp) string {
	if len(c) == 0 {
		return "*"
	}
	s := ""
	for _, o := range c {
		s += fmt.Sprintf("%d%c", o.Len, cigChars[o.Op])
	}
	return s
}

func c16Record(r *core.Result, rng *rand.Rand, ref *sam.Reference) (nt bool) {
	oc := c16RandCigar(rng)
	pos := edgePos(rng)
	if pos < 0 {
		pos = 0
	}
	if rng.Intn(40) == 0 {
		pos = -1
	}
	flags := sam.Flags(rng.Intn(1 << 12))
	switch rng.Intn(4) {
	case 0:
		flags &^= sam.Unmapped
	case 1:
		flags |= sam.Unmapped
	}
	var cg sam.Cigar
	for _, o := range oc {
		cg = append(cg, sam.NewCigarOp(sam.CigarOpType(o.Op), o.Len))
	}
	rec := &sam.Record{Name: "r", Ref: ref, Pos: pos, Flags: flags, Cigar: cg, MatePos: -1}
	if pos == -1 {
		rec.Ref = nil
	}
	unm := flags&sam.Unmapped != 0
	desc := func() string {
		return fmt.Sprintf("pos=%d flags=0x%x cigar=%s", pos, uint16(flags), cigString(oc))
	}
	pv, st := core.Recover(func() {
		wr, wq := oracle.RefQueryLens(oc)
		gr, gq := cg.Lengths()
		if gr != wr || gq != wq {
			r.Violate("cigar|lengths", "%s: Lengths() = (%d,%d), specification (%d,%d)", desc(), gr, gq, wr, wq)
		}
		for _, sl := range []int{wq, wq + 1, wq - 1, 0} {
			if got, want := cg.IsValid(sl), oracle.CigarValid(oc, sl); got != want {
				r.Violate("cigar|isvalid", "%s: IsValid(%d) = %v, specification %v", desc(), sl, got, want)
			}
		}
		_, be := oracle.BinSpan(pos, unm, oc)
		end := rec.End()
		if unm || len(oc) == 0 {
			if end != pos+1 {
				r.Violate("record|end|unmapped", "%s: End() = %d, want pos+1 = %d (length one)", desc(), end, pos+1)
			}
		} else {
			ae := oracle.AlignEnd(pos, oc)
			if ae > pos {
				if end != ae {
					r.Violate("record|end", "%s: End() = %d, specification %d", desc(), end, ae)
				}
			} else if end != pos && end != pos+1 {
				r.Violate("record|end|zero-ref", "%s: End() = %d for an alignment consuming no reference", desc(), end)
			}
		}
		if l := rec.Len(); l != end-pos {
			r.Violate("record|len", "%s: Len() = %d, End()-Start() = %d", desc(), l, end-pos)
		}
		{
			// (positions are below 2^29; an end beyond the indexable range
			// gives bin 0 by the specification's function)
			want := oracle.SpecReg2bin(pos, be) // reg2bin(-1,0) = 4680 for unplaced reads
			if got := rec.Bin(); got != want {
				cls := "mapped"
				if unm {
					cls = "unmapped"
				} else if oracle.AlignEnd(pos, oc) <= pos {
					cls = "zero-ref"
				}
				r.Violate("record|bin|"+cls, "%s: Bin() = %d, specification reg2bin(%d,%d) = %d", desc(), got, pos, be, want)
			}
		}
	})
	if pv != nil {
		r.Violate("panic|record-arith|"+core.TopLibFrame(st), "%s: %v", desc(), pv)
	}
	return len(oc) >= 2
}

func c16Run(c core.Case) *core.Result {
	r := core.NewResult()
	r.Nontrivial = true
	r.FP = core.Hash(c.Kind, c.Seed, c.P)
	rng := c.Rng()
	switch c.Kind {
	case "record":
		ref, _ := sam.NewReference("chr1", "", "", 1<<29, nil, nil)
		sam.NewHeader(nil, []*sam.Reference{ref})
		n := c.Int("n")
		var nt int64
		for i := 0; i < n && len(r.Viol) < 8; i++ {
			if c16Record(r, rng, ref) {
				nt++
			}
		}
		r.Evals, r.DistinctNT = int64(n), nt
		r.Count("records", int64(n))
		r.Sample = fmt.Sprintf("%d random records, e.g. pos=%d cigar=%s", n, edgePos(rng), cigString(c16RandCigar(rng)))
	case "bai-edge":
		var tiles []int
		for _, sh := range []uint{14, 17, 20, 23, 26} {
			for k := 0; k < 1<<(29-sh) && k < 20; k++ {
				for d := -1; d <= 1; d++ {
					t := (k << (sh - 14)) + d
					if t >= 0 && t < 1<<15 {
						tiles = append(tiles, t)
					}
				}
			}
			last := (1 << (29 - sh)) - 1
			for d := -1; d <= 0; d++ {
				tiles = append(tiles, (last<<(sh-14))+d+1<<0)
			}
		}
		tiles = append(tiles, 0, 1<<15-1)
		uniq := map[int]bool{}
		var ts []int
		for _, t := range tiles {
			if t >= 0 && t < 1<<15 && !uniq[t] {
				uniq[t] = true
				ts = append(ts, t)
			}
		}
		var n int64
		for _, bt := range ts {
			for _, et := range ts {
				if et < bt {
					continue
				}
				for _, bo := range []int{0, 1, 16383} {
					for _, eo := range []int{0, 1, 16383} {
						b := bt<<14 + bo
						e := et<<14 + eo + 1
						if e <= b {
							continue
						}
						c16CheckBAI(r, b, e, et-bt <= 600)
						n++
					}
				}
			}
		}
		r.Evals, r.DistinctNT = n, n
		r.Count("bai_intervals", n)
		r.Sample = fmt.Sprintf("%d level-edge tiles, all ordered pairs x 9 in-tile offset pairs", len(ts))
	case "bai-random":
		n := c.Int("n")
		var nt int64
		for i := 0; i < n && len(r.Viol) < 8; i++ {
			b := edgePos(rng)
			if b < 0 {
				b = 0
			}
			var e int
			switch rng.Intn(4) {
			case 0:
				e = b + 1 + rng.Intn(100)
			case 1:
				e = b + 1 + rng.Intn(1<<18)
			case 2:
				e = edgePos(rng)
			default:
				e = b + 1 + rng.Intn(1<<24)
			}
			if e <= b {
				b, e = e, b+1
			}
			if b < 0 {
				b = 0
			}
			if e > 1<<29 {
				e = 1 << 29
			}
			if e <= b {
				continue
			}
			c16CheckBAI(r, b, e, e-b < 1<<24)
			if b>>14 != (e-1)>>14 {
				nt++
			}
			// consistency clause: an overlapping interval's bin is in this interval's list
			b2 := b + rng.Intn(e-b)
			e2 := b2 + 1 + rng.Intn(1<<uint(rng.Intn(20)))
			if e2 > 1<<29 {
				e2 = 1 << 29
			}
			if e2 > b2 && e-b < 1<<22 {
				bin := bam.VerifBinFor(b2, e2)
				found := false
				for _, x := range bam.VerifOverlappingBinsFor(b, e) {
					if x == bin {
						found = true
					}
				}
				if !found {
					r.Violate("bai|consistency", "[%d,%d) overlaps [%d,%d) but BinFor of the former (%d) is not in OverlappingBinsFor of the latter", b2, e2, b, e, bin)
				}
			}
		}
		r.Evals, r.DistinctNT = int64(n), 0
		r.Nontrivial = nt > 0
		r.Count("bai_intervals", int64(n))
	case "bai-exh":
		lo, hi := c.Int("lo"), c.Int("hi")
		var n, nl int64
		for bt := lo; bt < hi && len(r.Viol) < 8; bt++ {
			for et := bt; et < 1<<15; et++ {
				for _, bo := range [2]int{0, 16383} {
					for _, eo := range [2]int{0, 16383} {
						b := bt<<14 + bo
						e := et<<14 + eo + 1
						if e <= b {
							continue
						}
						n++
						got := int(bam.VerifBinFor(b, e))
						if s := oracle.SpecReg2bin(b, e); got != s {
							r.Violate("bai|binfor|spec", "BinFor(%d,%d) = %d, SAMv1 5.3 reg2bin = %d", b, e, got, s)
						}
						if d := baiDefBin(b, e); got != d {
							r.Violate("bai|binfor|def", "BinFor(%d,%d) = %d, smallest containing bin = %d", b, e, got, d)
						}
						if et-bt <= 64 || (et-bt)%509 == 0 {
							nl++
							l := bam.VerifOverlappingBinsFor(b, e)
							c16CheckList(r, "bai", u32to64(l), int64(b), int64(e), 14, 5)
						}
					}
				}
			}
		}
		r.Evals, r.DistinctNT = n, n
		r.Count("bai_intervals", n)
		r.Count("bai_lists_checked", nl)
		r.Sample = fmt.Sprintf("begin tiles %d..%d x all end tiles x 4 offset corners", lo, hi-1)
	case "csi-exh":
		m, d := c.Int("m"), c.Int("d")
		max := int64(1) << uint(m+3*d)
		var n int64
		for b := int64(0); b < max && len(r.Viol) < 8; b++ {
			for e := b + 1; e <= max; e++ {
				c16CheckCSI(r, b, e, m, d, true)
				n++
			}
		}
		r.Evals, r.DistinctNT = n, n
		r.Count("csi_intervals", n)
		r.Sample = fmt.Sprintf("all %d intervals of geometry minShift=%d depth=%d", n, m, d)
	case "csi-pairs":
		m, d := c.Int("m"), c.Int("d")
		max := int64(1) << uint(m+3*d)
		var n int64
		for b := int64(0); b < max && len(r.Viol) < 8; b++ {
			for e := b + 1; e <= max; e++ {
				list := csi.VerifReg2bins(b, e, uint32(m), uint32(d))
				in := map[uint32]bool{}
				for _, x := range list {
					in[x] = true
				}
				for b2 := int64(0); b2 < e; b2++ {
					for e2 := b2 + 1; e2 <= max; e2++ {
						if e2 <= b {
							continue
						}
						n++
						if bin := csi.VerifReg2bin(b2, e2, uint32(m), uint32(d)); !in[bin] {
							r.Violate("csi|consistency", "geometry (%d,%d): [%d,%d) overlaps [%d,%d) but reg2bin of the former (%d) is not in reg2bins of the latter %v", m, d, b2, e2, b, e, bin, list)
						}
					}
				}
			}
		}
		r.Evals, r.DistinctNT = n, n
		r.Count("csi_overlap_pairs", n)
		r.Sample = fmt.Sprintf("all overlapping interval pairs of geometry (%d,%d)", m, d)
	case "csi-random":
		m, d := c.Int("m"), c.Int("d")
		max := int64(1) << uint(m+3*d)
		n := c.Int("n")
		var nt int64
		for i := 0; i < n && len(r.Viol) < 8; i++ {
			var b int64
			switch rng.Intn(3) {
			case 0:
				b = rng.Int63n(max)
			case 1:
				lv := rng.Intn(d + 1)
				w := int64(1) << uint(m+3*lv)
				b = rng.Int63n(max/w)*w + int64(rng.Intn(5)-2)
			default:
				b = rng.Int63n(1 << uint(m+2))
			}
			if b < 0 {
				b = 0
			}
			if b >= max {
				b = max - 1
			}
			e := b + 1 + rng.Int63n(int64(1)<<uint(rng.Intn(m+3*d)))
			if e > max {
				e = max
			}
			list := (e-b)>>uint(m) < 4096
			c16CheckCSI(r, b, e, m, d, list)
			if b>>uint(m) != (e-1)>>uint(m) {
				nt++
			}
			if list {
				b2 := b + rng.Int63n(e-b)
				e2 := b2 + 1 + rng.Int63n(int64(1)<<uint(rng.Intn(m+3*d)))
				if e2 > max {
					e2 = max
				}
				bin := csi.VerifReg2bin(b2, e2, uint32(m), uint32(d))
				found := false
				for _, x := range csi.VerifReg2bins(b, e, uint32(m), uint32(d)) {
					if x == bin {
						found = true
					}
				}
				if !found {
					r.Violate("csi|consistency", "geometry (%d,%d): [%d,%d) overlaps [%d,%d) but reg2bin of the former (%d) is not in reg2bins of the latter", m, d, b2, e2, b, e, bin)
				}
			}
		}
		r.Evals = int64(n)
		r.Nontrivial = nt > 0
		r.Count("csi_intervals", int64(n))
	}
	return r
}

var baiW = [6]int{1 << 29, 1 << 26, 1 << 23, 1 << 20, 1 << 17, 1 << 14}
var baiOff = [6]int{0, 1, 9, 73, 585, 4681}

// baiDefBin: the smallest BAI bin containing [b,e), by division only.
func baiDefBin(b, e int) int {
	for l := 5; l >= 0; l-- {
		k := b / baiW[l]
		if e <= (k+1)*baiW[l] {
			return baiOff[l] + k
		}
	}
	return 0
}
