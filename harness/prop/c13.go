package prop

import (
	"bytes"
	"fmt"
	"io"
	"math/rand"
	"sort"

	"github.com/biogo/hts/bam"
	"github.com/biogo/hts/bgzf"
	"github.com/biogo/hts/bgzf/index"

	"verif/core"
	"verif/gen"
	"verif/oracle"
)

func init() {
	core.Register(&core.Prop{
		ID:    "C13",
		Level: "exploration",
		Rule: "bam cases: records from the C05 generator are encoded by the independent BAM encoder and cut into BGZF members by the independent BGZF encoder so that records end exactly on, one byte before and one byte after member ends, span members, and empty members intervene; pass 1 reads sequentially with bam.Reader and records LastChunk per record (also checked against the known record offsets); then for all i<=j (files <= 12 records) or random pairs, SetChunk and NewIterator over lists of such chunks in random order must yield exactly records i..j per chunk and then stop; rd in {1,2,4}. " +
			"chunkreader cases: C02 files; ordered non-overlapping logical intervals with arbitrary boundaries translated to virtual offsets, Begin in the form a reader reports, End in both forms where two exist, touching chunks, a separately counted sub-family with empty chunks; read-buffer sizes {1,2,7,4096,70000}; result must be the concatenation of the flat data of the intervals, then io.EOF. " +
			"Non-trivial: a chunk list with >= 2 chunks or a chunk spanning >= 2 members.",
		Floor:       map[string]int{"quick": 200, "thorough": 3000},
		Plan:        c13Plan,
		Run:         c13Run,
		Assumptions: []string{"chunks run from a reported Begin to a reported End (record-aligned for bam.Reader); ChunkReader lists are ordered and non-overlapping"},
		TimeoutS:    map[string]int{"quick": 900, "thorough": 3400},
	})
}

func c13Plan(seed int64, tier string) []core.Case {
	nb, nc := 120, 320
	if tier == "thorough" {
		nb, nc = 1800, 4800
	}
	var cs []core.Case
	for i := 0; i < nb; i++ {
		s := core.SubSeed(seed, "c13b", i)
		cs = append(cs, core.Case{Kind: "bam-chunks", Seed: s, P: map[string]int64{"rd": []int64{1, 2, 4}[i%3]}})
	}
	for i := 0; i < nc; i++ {
		s := core.SubSeed(seed, "c13c", i)
		cs = append(cs, core.Case{Kind: "chunkreader", Seed: s, P: map[string]int64{"rd": []int64{1, 2, 4}[i%3], "empty": int64(i % 8 / 7)}})
	}
	return cs
}

func c13Run(c core.Case) *core.Result {
	r := core.NewResult()
	if c.Kind == "bam-chunks" {
		c13Bam(r, c)
	} else {
		c13ChunkReader(r, c)
	}
	return r
}

func c13Bam(r *core.Result, c core.Case) {
	rng := c.Rng()
	rd := c.Int("rd")
	nref := 1 + rng.Intn(3)
	refs := gen.RandRefs(rng, nref)
	h := mkHeader(rng, refs, false)
	text, _ := h.MarshalText()
	raw := oracle.EncodeBAMHeader(text, refs)
	nrec := 2 + rng.Intn(18)
	var recs []oracle.Rec
	var starts, ends []int
	opts := gen.RecOpts{NRefs: nref, NoBigCig: true, MaxSeq: 400}
	if rng.Intn(6) == 0 {
		opts.MaxSeq = 70000
	}
	for i := 0; i < nrec; i++ {
		rec := gen.RandRec(rng, opts, i)
		recs = append(recs, rec)
		starts = append(starts, len(raw))
		raw = append(raw, oracle.EncodeBAMRecord(rec, true)...)
		ends = append(ends, len(raw))
	}
	// cut points: around record ends, mid-record, random
	cutset := map[int]bool{}
	for _, e := range ends {
		switch rng.Intn(6) {
		case 0:
			cutset[e] = true
		case 1:
			cutset[e-1] = true
		case 2:
			cutset[e+1] = true
		case 3:
			cutset[e-rng.Intn(40)] = true
		case 4:
			cutset[e+2] = true // inside the next record's length field
		}
	}
	for k := rng.Intn(4); k > 0; k-- {
		cutset[rng.Intn(len(raw))] = true
	}
	var cuts []int
	for p := range cutset {
		if p > 0 && p < len(raw) {
			cuts = append(cuts, p)
		}
	}
	sort.Ints(cuts)
	f := gen.FileFromData(rng, raw, cuts, []int{0, 0, 15}[rng.Intn(3)], rng.Intn(5) != 0)
	cfg := fmt.Sprintf("rd=%d records=%d members=%d table=%s", rd, nrec, len(f.Blocks), blockTable(f))
	m := &rmodel{f: f}
	br, err := bam.NewReader(bytes.NewReader(f.Bytes), rd)
	if err != nil {
		r.Violate("bam|new", "%s: bam.NewReader on a valid file: %v", cfg, err)
		return
	}
	defer br.Close()
	// One case in three has a block cache on the reader: the property does
	// not mention caches, and a transparent cache (C03) cannot change it.
	if ck := rng.Intn(9); ck < 3 {
		br.SetCache(mkCache(ck, 1+rng.Intn(6), len(f.Blocks)))
		cfg += fmt.Sprintf(" cache-kind=%d", ck)
		r.Count("bam_cases_with_cache", 1)
	}
	h2 := br.Header()
	var chunks []bgzf.Chunk
	for i := 0; i < nrec; i++ {
		got, err := br.Read()
		if err != nil {
			r.Violate("bam|sequential-read", "%s: sequential Read of record %d: %v", cfg, i, err)
			return
		}
		if cls, d := compareRecord(got, recs[i], h2, omitNone); cls != "" {
			r.Violate("bam|sequential-"+cls, "%s: record %d: %s", cfg, i, d)
			return
		}
		ch := br.LastChunk()
		pb, e1 := m.translate(ch.Begin, false)
		pe, e2 := m.translate(ch.End, true)
		if e1 != nil || e2 != nil || pb != int64(starts[i]) || pe != int64(ends[i]) {
			r.Violate("bam|lastchunk", "%s: record %d occupies uncompressed bytes [%d,%d) but LastChunk %v translates to [%d,%d) (%v %v)", cfg, i, starts[i], ends[i], ch, pb, pe, e1, e2)
			return
		}
		chunks = append(chunks, ch)
	}
	if _, err := br.Read(); err != io.EOF {
		r.Violate("bam|sequential-eof", "%s: Read after the last record: %v", cfg, err)
		return
	}
	readSpan := func(label string, i, j int, next func() (string, bool, error)) bool {
		for k := i; k <= j; k++ {
			name, ok, err := next()
			if err != nil {
				r.Violate("chunk|error", "%s: %s chunk [%d..%d]: error at record %d: %v", cfg, label, i, j, k, err)
				return false
			}
			if !ok {
				r.Violate("chunk|short", "%s: %s chunk [%d..%d] stopped after %d of %d records", cfg, label, i, j, k-i, j-i+1)
				return false
			}
			if name != recs[k].Name {
				r.Violate("chunk|wrong-record", "%s: %s chunk [%d..%d]: position %d returned record %q, expected record %d %q", cfg, label, i, j, k-i, name, k, recs[k].Name)
				return false
			}
		}
		return true
	}
	// single chunks through SetChunk
	type pair struct{ i, j int }
	var pairs []pair
	if nrec <= 12 {
		for i := 0; i < nrec; i++ {
			for j := i; j < nrec; j++ {
				pairs = append(pairs, pair{i, j})
			}
		}
		rng.Shuffle(len(pairs), func(a, b int) { pairs[a], pairs[b] = pairs[b], pairs[a] })
	} else {
		for k := 0; k < 40; k++ {
			i := rng.Intn(nrec)
			pairs = append(pairs, pair{i, i + rng.Intn(nrec-i)})
		}
	}
	for _, p := range pairs {
		ch := bgzf.Chunk{Begin: chunks[p.i].Begin, End: chunks[p.j].End}
		if rng.Intn(4) == 0 {
			// a chunk that is set and abandoned without a single Read
			q := pairs[rng.Intn(len(pairs))]
			oc := bgzf.Chunk{Begin: chunks[q.i].Begin, End: chunks[q.j].End}
			if err := br.SetChunk(&oc); err != nil {
				r.Violate("chunk|setchunk", "%s: SetChunk(%v): %v", cfg, oc, err)
				return
			}
			r.Count("setchunk_abandoned_unread", 1)
		}
		if err := br.SetChunk(&ch); err != nil {
			r.Violate("chunk|setchunk", "%s: SetChunk(%v): %v", cfg, ch, err)
			return
		}
		ok := readSpan("SetChunk", p.i, p.j, func() (string, bool, error) {
			rec, err := br.Read()
			if err == io.EOF {
				return "", false, nil
			}
			if err != nil {
				return "", false, err
			}
			return rec.Name, true, nil
		})
		if !ok {
			return
		}
		if rec, err := br.Read(); err != io.EOF {
			nm := ""
			if rec != nil {
				nm = rec.Name
			}
			r.Violate("chunk|overrun", "%s: SetChunk [%d..%d]: Read after the last record of the chunk returned (%q, %v) instead of io.EOF", cfg, p.i, p.j, nm, err)
			return
		}
		r.Count("setchunk_spans", 1)
	}
	br.SetChunk(nil)
	// chunk lists through the Iterator, in any order
	for rep := 0; rep < 6; rep++ {
		n := 1 + rng.Intn(5)
		var list []bgzf.Chunk
		var spans []pair
		for k := 0; k < n; k++ {
			i := rng.Intn(nrec)
			j := i + rng.Intn(nrec-i)
			if rng.Intn(3) == 0 {
				j = i
			}
			spans = append(spans, pair{i, j})
			list = append(list, bgzf.Chunk{Begin: chunks[i].Begin, End: chunks[j].End})
		}
		it, err := bam.NewIterator(br, list)
		if err != nil {
			r.Violate("iterator|new", "%s: NewIterator(%v): %v", cfg, list, err)
			return
		}
		for k, sp := range spans {
			ok := readSpan(fmt.Sprintf("Iterator list %v item %d", spans, k), sp.i, sp.j, func() (string, bool, error) {
				if !it.Next() {
					return "", false, it.Error()
				}
				return it.Record().Name, true, nil
			})
			if !ok {
				return
			}
		}
		if it.Next() {
			r.Violate("iterator|overrun", "%s: Iterator over %v returned the extra record %q", cfg, spans, it.Record().Name)
			return
		}
		if err := it.Close(); err != nil {
			r.Violate("iterator|error", "%s: Iterator over %v: %v", cfg, spans, err)
			return
		}
		r.Count("iterator_lists", 1)
		if n >= 2 {
			r.Nontrivial = true
		}
	}
	r.FP = core.Hash(cfg, recs[0].Name)
	r.Sample = map[string]any{"config": cfg, "pairs": len(pairs)}
}

func c13ChunkReader(r *core.Result, c core.Case) {
	rng := c.Rng()
	rd := c.Int("rd")
	var f *gen.File
	for {
		f = gen.RandFile(rng, gen.FileOpts{MaxBlocks: 12, SmallOnly: rng.Intn(4) != 0})
		if len(f.Flat) >= 4 {
			break
		}
	}
	total := int64(len(f.Flat))
	withEmpty := c.Int("empty") == 1
	// ordered, non-overlapping intervals
	n := 1 + rng.Intn(5)
	pts := make([]int64, 0, 2*n)
	for len(pts) < 2*n {
		if rng.Intn(3) == 0 { // a member boundary: the interval end has two virtual-offset forms
			b := f.Blocks[rng.Intn(len(f.Blocks))]
			pts = append(pts, b.Start+int64(b.Len)*int64(rng.Intn(2)))
			continue
		}
		pts = append(pts, rng.Int63n(total+1))
	}
	sort.Slice(pts, func(i, j int) bool { return pts[i] < pts[j] })
	var ivs [][2]int64
	for i := 0; i+1 < len(pts); i += 2 {
		b, e := pts[i], pts[i+1]
		if rng.Intn(4) == 0 && i+2 < len(pts) {
			pts[i+2] = e // touching chunks
		}
		if e == b {
			if !withEmpty {
				continue
			}
		}
		if b >= total {
			continue
		}
		ivs = append(ivs, [2]int64{b, e})
	}
	if len(ivs) == 0 {
		ivs = append(ivs, [2]int64{0, total})
	}
	var chunks []bgzf.Chunk
	var want []byte
	spansMembers := false
	for _, iv := range ivs {
		bb, bo := f.VOffset(iv[0])
		var end bgzf.Offset
		if iv[1] == iv[0] {
			end = bgzf.Offset{File: bb, Block: uint16(bo)}
		} else {
			forms := f.VOffsetEnd(iv[1])
			e := forms[rng.Intn(len(forms))]
			end = bgzf.Offset{File: e[0], Block: uint16(e[1])}
			if len(forms) > 1 {
				r.Count("end_positions_with_two_forms", 1)
			}
			if e[0] != bb {
				spansMembers = true
			}
		}
		chunks = append(chunks, bgzf.Chunk{Begin: bgzf.Offset{File: bb, Block: uint16(bo)}, End: end})
		want = append(want, f.Flat[iv[0]:iv[1]]...)
	}
	bufSize := []int{1, 2, 7, 4096, 70000}[rng.Intn(5)]
	if len(want) > 50000 && bufSize < 7 {
		bufSize = 4096
	}
	fam := "nonempty-chunks"
	if withEmpty {
		fam = "with-empty-chunks"
	}
	cfg := fmt.Sprintf("rd=%d buf=%d family=%s intervals=%v chunks=%v table=%s", rd, bufSize, fam, ivs, chunks, blockTable(f))
	r.FP = core.Hash(cfg)
	r.Nontrivial = len(chunks) >= 2 || spansMembers
	r.Count("chunkreader_"+fam, 1)
	r.Sample = map[string]any{"config": cfg}
	rr, err := bgzf.NewReader(bytes.NewReader(f.Bytes), rd)
	if err != nil {
		r.Violate("chunkreader|new", "%s: %v", cfg, err)
		return
	}
	defer rr.Close()
	if ck := rng.Intn(9); ck < 3 {
		rr.SetCache(mkCache(ck, 1+rng.Intn(6), len(f.Blocks)))
		cfg += fmt.Sprintf(" cache-kind=%d", ck)
		r.Count("chunkreader_cases_with_cache", 1)
		if rng.Intn(2) == 0 {
			io.Copy(io.Discard, rr) // to the end of the data first
		}
	}
	// Move the reader somewhere else first (the ChunkReader must seek).
	if rng.Intn(2) == 0 {
		io.CopyN(io.Discard, rr, rng.Int63n(total+1))
	}
	cr, err := index.NewChunkReader(rr, chunks)
	if err != nil {
		r.Violate("chunkreader|new", "%s: NewChunkReader: %v", cfg, err)
		return
	}
	var got []byte
	buf := make([]byte, bufSize)
	zero := 0
	limit := len(f.Blocks) + len(chunks) + 2
	for steps := 0; ; steps++ {
		k, err := cr.Read(buf)
		got = append(got, buf[:k]...)
		if len(got) > len(want) {
			break
		}
		if err == io.EOF {
			break
		}
		if err != nil {
			r.Violate("chunkreader|error|"+fam, "%s: Read: %v after %d bytes", cfg, err, len(got))
			return
		}
		if k == 0 {
			zero++
			if zero > limit {
				r.Violate("chunkreader|no-progress|"+fam, "%s: %d consecutive (0,nil) reads", cfg, zero)
				return
			}
		} else {
			zero = 0
		}
	}
	cr.Close()
	if !bytes.Equal(got, want) {
		i := 0
		for i < len(got) && i < len(want) && got[i] == want[i] {
			i++
		}
		r.Violate("chunkreader|wrong-bytes|"+fam, "%s: returned %d bytes, the chunks hold %d; first difference at byte %d", cfg, len(got), len(want), i)
	}
}

var _ = rand.Int
