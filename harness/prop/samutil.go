package prop

import (
	"bytes"
	"fmt"
	"math"

	"github.com/biogo/hts/sam"

	"verif/oracle"
)

// toAux converts a format-level optional field into the library's Aux.
func toAux(a oracle.AuxF) (sam.Aux, error) {
	t := sam.Tag{a.Tag[0], a.Tag[1]}
	switch a.Type {
	case 'A':
		return sam.NewAux(t, sam.ASCII(byte(a.Int)))
	case 'c':
		return sam.NewAux(t, int8(a.Int))
	case 'C':
		return sam.NewAux(t, uint8(a.Int))
	case 's':
		return sam.NewAux(t, int16(a.Int))
	case 'S':
		return sam.NewAux(t, uint16(a.Int))
	case 'i':
		return sam.NewAux(t, int32(a.Int))
	case 'I':
		return sam.NewAux(t, uint32(a.Int))
	case 'f':
		return sam.NewAux(t, a.F)
	case 'Z':
		return sam.NewAux(t, sam.Text(a.Data))
	case 'H':
		return sam.NewAux(t, sam.Hex(a.Data))
	case 'B':
		switch a.Sub {
		case 'c':
			v := make([]int8, len(a.Ints))
			for i, x := range a.Ints {
				v[i] = int8(x)
			}
			return sam.NewAux(t, v)
		case 'C':
			v := make([]uint8, len(a.Ints))
			for i, x := range a.Ints {
				v[i] = uint8(x)
			}
			return sam.NewAux(t, v)
		case 's':
			v := make([]int16, len(a.Ints))
			for i, x := range a.Ints {
				v[i] = int16(x)
			}
			return sam.NewAux(t, v)
		case 'S':
			v := make([]uint16, len(a.Ints))
			for i, x := range a.Ints {
				v[i] = uint16(x)
			}
			return sam.NewAux(t, v)
		case 'i':
			v := make([]int32, len(a.Ints))
			for i, x := range a.Ints {
				v[i] = int32(x)
			}
			return sam.NewAux(t, v)
		case 'I':
			v := make([]uint32, len(a.Ints))
			for i, x := range a.Ints {
				v[i] = uint32(x)
			}
			return sam.NewAux(t, v)
		case 'f':
			return sam.NewAux(t, append([]float32(nil), a.Flts...))
		}
	}
	return nil, fmt.Errorf("unknown aux type %c", a.Type)
}

// toRecord builds the library record for a format-level record.
func toRecord(r oracle.Rec, h *sam.Header) (*sam.Record, error) {
	rec := &sam.Record{
		Name: r.Name, Pos: int(r.Pos), MapQ: r.MapQ, Flags: sam.Flags(r.Flags),
		MatePos: int(r.MatePos), TempLen: int(r.TLen),
	}
	if r.RefID >= 0 {
		rec.Ref = h.Refs()[r.RefID]
	}
	if r.MateRefID >= 0 {
		rec.MateRef = h.Refs()[r.MateRefID]
	}
	for _, o := range r.Cigar {
		rec.Cigar = append(rec.Cigar, sam.NewCigarOp(sam.CigarOpType(o.Op), o.Len))
	}
	rec.Seq = sam.NewSeq([]byte(r.Seq))
	if r.Qual != nil {
		rec.Qual = append([]byte(nil), r.Qual...)
	}
	for _, a := range r.Aux {
		x, err := toAux(a)
		if err != nil {
			return nil, err
		}
		rec.AuxFields = append(rec.AuxFields, x)
	}
	return rec, nil
}

// auxBytes is the byte-for-byte in-memory form the library holds for an aux
// field (the BAM encoding without the terminating NUL of Z and H, H as raw bytes).
func auxBytes(a oracle.AuxF) []byte {
	b := oracle.EncodeAux(a, false)
	if a.Type == 'Z' || a.Type == 'H' {
		b = b[:len(b)-1]
	}
	return b
}

// omit levels as in package bam.
const (
	omitNone = iota
	omitAux
	omitAll
)

// compareRecord checks a record read back against the format-level record
// that was written. h is the header the reader exposes. It returns a
// violation class and text, or "".
func compareRecord(got *sam.Record, want oracle.Rec, h *sam.Header, omit int) (string, string) {
	if got.Name != want.Name {
		return "name", fmt.Sprintf("name %q, written %q", got.Name, want.Name)
	}
	chk := func(label string, ref *sam.Reference, id int32) (string, string) {
		if id < 0 {
			if ref != nil {
				return "ref", fmt.Sprintf("%s is %q, written unset", label, ref.Name())
			}
			return "", ""
		}
		if ref == nil {
			return "ref", fmt.Sprintf("%s is nil, written reference id %d", label, id)
		}
		if int(id) >= len(h.Refs()) || ref != h.Refs()[id] {
			return "ref-identity", fmt.Sprintf("%s (%q, id %d) is not the header's reference object number %d", label, ref.Name(), ref.ID(), id)
		}
		return "", ""
	}
	if c, d := chk("Ref", got.Ref, want.RefID); c != "" {
		return c, d
	}
	if c, d := chk("MateRef", got.MateRef, want.MateRefID); c != "" {
		return c, d
	}
	if got.Pos != int(want.Pos) || got.MatePos != int(want.MatePos) || got.TempLen != int(want.TLen) {
		return "positions", fmt.Sprintf("pos/matepos/tlen = %d/%d/%d, written %d/%d/%d", got.Pos, got.MatePos, got.TempLen, want.Pos, want.MatePos, want.TLen)
	}
	if got.MapQ != want.MapQ || uint16(got.Flags) != want.Flags {
		return "mapq-flags", fmt.Sprintf("mapq/flags = %d/%#x, written %d/%#x", got.MapQ, uint16(got.Flags), want.MapQ, want.Flags)
	}
	if len(got.Cigar) != len(want.Cigar) {
		return "cigar", fmt.Sprintf("%d CIGAR operations, written %d", len(got.Cigar), len(want.Cigar))
	}
	for i, o := range want.Cigar {
		if int(got.Cigar[i].Type()) != o.Op || got.Cigar[i].Len() != o.Len {
			return "cigar", fmt.Sprintf("CIGAR op %d is %d%v, written %d%c", i, got.Cigar[i].Len(), got.Cigar[i].Type(), o.Len, "MIDNSHP=XB"[o.Op])
		}
	}
	if omit >= omitAll {
		if got.Seq.Length != 0 || len(got.Seq.Seq) != 0 || len(got.Qual) != 0 || len(got.AuxFields) != 0 {
			return "omit-all", "Omit(AllVariableLengthData) returned sequence, quality or aux data"
		}
		return "", ""
	}
	if got.Seq.Length != len(want.Seq) {
		return "seq", fmt.Sprintf("sequence length %d, written %d", got.Seq.Length, len(want.Seq))
	}
	if len(got.Seq.Seq) != (len(want.Seq)+1)/2 {
		return "seq", fmt.Sprintf("sequence holds %d doublets for %d bases", len(got.Seq.Seq), len(want.Seq))
	}
	if s := string(got.Seq.Expand()); s != want.Seq {
		return "seq", fmt.Sprintf("bases differ (first 40: %.40q vs %.40q)", s, want.Seq)
	}
	wq := want.Qual
	if wq == nil {
		wq = bytes.Repeat([]byte{0xff}, len(want.Seq))
	}
	if !bytes.Equal(got.Qual, wq) && !(len(got.Qual) == 0 && len(wq) == 0) {
		return "qual", fmt.Sprintf("qualities differ (%d bytes vs %d written; absent is all 0xff)", len(got.Qual), len(wq))
	}
	if omit >= omitAux {
		if len(got.AuxFields) != 0 {
			return "omit-aux", "Omit(AuxTags) returned aux data"
		}
		return "", ""
	}
	if len(got.AuxFields) != len(want.Aux) {
		return "aux-count", fmt.Sprintf("%d aux fields, written %d", len(got.AuxFields), len(want.Aux))
	}
	for i, a := range want.Aux {
		if wb := auxBytes(a); !bytes.Equal([]byte(got.AuxFields[i]), wb) {
			return "aux-bytes|" + string(rune(a.Type)), fmt.Sprintf("aux field %d (%s type %c) is % x, written % x", i, string(a.Tag[:]), a.Type, trunc([]byte(got.AuxFields[i]), 40), trunc(wb, 40))
		}
	}
	return "", ""
}

func trunc(b []byte, n int) []byte {
	if len(b) > n {
		return b[:n]
	}
	return b
}

// auxNumeric returns (kind, value) of an aux for comparisons that allow the
// integer type to narrow: kind 'i' with the numeric value, or the raw bytes.
func auxNumeric(a sam.Aux) (byte, float64, bool) {
	switch a.Type() {
	case 'c', 'C', 's', 'S', 'i', 'I':
		switch v := a.Value().(type) {
		case int8:
			return 'i', float64(v), true
		case uint8:
			return 'i', float64(v), true
		case int16:
			return 'i', float64(v), true
		case uint16:
			return 'i', float64(v), true
		case int32:
			return 'i', float64(v), true
		case uint32:
			return 'i', float64(v), true
		}
	case 'f':
		if v, ok := a.Value().(float32); ok {
			if math.IsNaN(float64(v)) {
				return 'f', 0, false
			}
			return 'f', float64(v), true
		}
	}
	return 0, 0, false
}
