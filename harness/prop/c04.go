package prop

import (
	"bytes"
	"fmt"
	"io"
	"math/rand"
	"sort"

	"github.com/biogo/hts/bam"
	"github.com/biogo/hts/bgzf"
	"github.com/biogo/hts/bgzf/index"
	"github.com/biogo/hts/csi"
	"github.com/biogo/hts/sam"
	"github.com/biogo/hts/tabix"

	"verif/core"
	"verif/gen"
)

func init() {
	core.Register(&core.Prop{
		ID:    "C04",
		Level: "exploration",
		Rule: "a case is (index kind BAI / tabix / CSI with (minShift,depth) in {(14,5),(14,6),(12,4),(10,3),(6,2),(4,2)}) x a coordinate-sorted record set over 1..4 references (positions and lengths biased to tile edges k*2^minShift+{-1,0,1} and to every bin-level edge, up to the scheme's limit; a record inside a tile followed by one straddling the tile's end; sparse tiles; many records in one bin; placed-unmapped and unplaced records) x chunk layout (synthetic: records laid end to end in an uncompressed stream cut into blocks, Begin in the form a reader reports, End possibly (base,len); real (BAI): the records are written with bam.Writer, read back, and LastChunk of each is added). " +
			"Oracle (brute force): Add in sorted order must not fail or panic; for every query (around every record edge +-1, tile- and bin-aligned windows, whole reference, empty regions, random windows) every added record whose interval overlaps the query must have its chunk inside the union of the returned chunks; an error or empty answer implies no overlap. In real mode the returned chunks are iterated with bam.NewIterator and every overlapping record's name must appear. Each index is queried as built, after MergeChunks with Identity/Adjacent/Squash/Compressor(0)/Compressor(65536), after write+read, and after both. " +
			"Non-trivial: >= 1 query with >= 1 overlapping record and >= 1 record spanning two tiles; distinct = distinct (kind, record set).",
		Floor:       map[string]int{"quick": 150, "thorough": 3000},
		Plan:        c04Plan,
		Run:         c04Run,
		Assumptions: []string{"extra chunks are allowed (completeness, not minimality)", "queries lie within the indexable range of the scheme"},
		TimeoutS:    map[string]int{"quick": 900, "thorough": 3400},
	})
}

// (14,7), (14,10), (1,10) are deep schemes (coordinates beyond 2^31, bin
// numbers beyond 2^31); record and query widths are capped there
// (gen.SpanCap) because enumerating the bins under a wide interval is linear
// in its width. (14,1) and (9,1) are so shallow that every bin of a reference
// is easily occupied. (17,4) and (11,6) cover 29 bits like the BAI scheme
// with another depth.
var csiGeoms = [][2]int{{14, 5}, {14, 6}, {12, 4}, {10, 3}, {6, 2}, {4, 2}, {14, 7}, {14, 10}, {1, 10}, {14, 1}, {9, 1}, {17, 4}, {11, 6}}

func c04Plan(seed int64, tier string) []core.Case {
	n := 150
	if tier == "thorough" {
		n = 3000
	}
	var cs []core.Case
	for i := 0; i < n; i++ {
		for kind := int64(0); kind < 3; kind++ {
			c := core.Case{Kind: []string{"bai", "tabix", "csi"}[kind], Seed: core.SubSeed(seed, "c04", kind, i), P: map[string]int64{}}
			if kind == 2 {
				c.P["geom"] = int64(i % len(csiGeoms))
			}
			if kind == 0 && i%4 == 0 {
				c.P["real"] = 1
			}
			cs = append(cs, c)
		}
	}
	return cs
}

// ---- uniform view of the three index kinds ----

type anyIndex interface {
	add(r gen.IRec, c bgzf.Chunk) error
	query(ref, beg, end int) ([]bgzf.Chunk, error)
	merge(s index.MergeStrategy)
	write() ([]byte, error)
	reread(b []byte) (anyIndex, error)
	numRefs() int
	stats(i int) (index.ReferenceStats, bool)
	unmapped() (uint64, bool)
	kind() string
}

type baiIdx struct {
	idx  *bam.Index
	refs []*sam.Reference
}

func newRefs(n int) []*sam.Reference {
	var refs []*sam.Reference
	for i := 0; i < n; i++ {
		r, _ := sam.NewReference(fmt.Sprintf("ref%d", i), "", "", 1<<29, nil, nil)
		refs = append(refs, r)
	}
	sam.NewHeader(nil, refs)
	return refs
}

func iRecToSam(r gen.IRec, refs []*sam.Reference) *sam.Record {
	rec := &sam.Record{Name: r.Name, Pos: r.Start, MatePos: -1, MapQ: 30}
	if r.Ref < 0 {
		rec.Pos = -1
		rec.Flags = sam.Unmapped
		return rec
	}
	rec.Ref = refs[r.Ref]
	if r.Mapped {
		for l := r.End - r.Start; l > 0; l -= 1<<28 - 1 {
			n := l
			if n > 1<<28-1 {
				n = 1<<28 - 1
			}
			rec.Cigar = append(rec.Cigar, sam.NewCigarOp(sam.CigarMatch, n))
		}
	} else {
		rec.Flags = sam.Unmapped
	}
	return rec
}

func (b *baiIdx) add(r gen.IRec, c bgzf.Chunk) error { return b.idx.Add(iRecToSam(r, b.refs), c) }
func (b *baiIdx) query(ref, beg, end int) ([]bgzf.Chunk, error) {
	return b.idx.Chunks(b.refs[ref], beg, end)
}
func (b *baiIdx) merge(s index.MergeStrategy) { b.idx.MergeChunks(s) }
func (b *baiIdx) write() ([]byte, error) {
	var buf bytes.Buffer
	err := bam.WriteIndex(&buf, b.idx)
	return buf.Bytes(), err
}
func (b *baiIdx) reread(p []byte) (anyIndex, error) {
	idx, err := bam.ReadIndex(bytes.NewReader(p))
	if err != nil || idx == nil {
		return nil, fmt.Errorf("ReadIndex: idx=%v err=%v", idx != nil, err)
	}
	return &baiIdx{idx: idx, refs: b.refs}, nil
}
func (b *baiIdx) numRefs() int                             { return b.idx.NumRefs() }
func (b *baiIdx) stats(i int) (index.ReferenceStats, bool) { return b.idx.ReferenceStats(i) }
func (b *baiIdx) unmapped() (uint64, bool)                 { return b.idx.Unmapped() }
func (b *baiIdx) kind() string                             { return "bai" }

type tbxRec struct {
	name       string
	start, end int
}

func (t tbxRec) RefName() string { return t.name }
func (t tbxRec) Start() int      { return t.start }
func (t tbxRec) End() int        { return t.end }

type tbxIdx struct {
	idx   *tabix.Index
	names []string
	last  string // name of the last placed record
	unpl  int    // unplaced records added so far
}

func (t *tbxIdx) add(r gen.IRec, c bgzf.Chunk) error {
	if r.Ref < 0 {
		// an unplaced record carries "*" (as an unplaced read of a SAM file
		// does) or, every other time, the name of the last placed record
		t.unpl++
		if t.unpl%2 == 1 || t.last == "" {
			return t.idx.Add(tbxRec{"*", 0, 1}, c, false, false)
		}
		return t.idx.Add(tbxRec{t.last, 0, 1}, c, false, false)
	}
	t.last = t.names[r.Ref]
	return t.idx.Add(tbxRec{t.names[r.Ref], r.Start, r.End}, c, true, r.Mapped)
}
func (t *tbxIdx) query(ref, beg, end int) ([]bgzf.Chunk, error) {
	return t.idx.Chunks(t.names[ref], beg, end)
}
func (t *tbxIdx) merge(s index.MergeStrategy) { t.idx.MergeChunks(s) }
func (t *tbxIdx) write() ([]byte, error) {
	var buf bytes.Buffer
	err := tabix.WriteTo(&buf, t.idx)
	return buf.Bytes(), err
}
func (t *tbxIdx) reread(p []byte) (anyIndex, error) {
	idx, err := tabix.ReadFrom(bytes.NewReader(p))
	if err != nil || idx == nil {
		return nil, fmt.Errorf("ReadFrom: idx=%v err=%v", idx != nil, err)
	}
	return &tbxIdx{idx: idx, names: t.names}, nil
}
func (t *tbxIdx) numRefs() int                             { return t.idx.NumRefs() }
func (t *tbxIdx) stats(i int) (index.ReferenceStats, bool) { return t.idx.ReferenceStats(i) }
func (t *tbxIdx) unmapped() (uint64, bool)                 { return t.idx.Unmapped() }
func (t *tbxIdx) kind() string                             { return "tabix" }

type csiRec struct{ id, start, end int }

func (c csiRec) RefID() int { return c.id }
func (c csiRec) Start() int { return c.start }
func (c csiRec) End() int   { return c.end }

type csiIdx struct{ idx *csi.Index }

func (x *csiIdx) add(r gen.IRec, c bgzf.Chunk) error {
	if r.Ref < 0 {
		return x.idx.Add(csiRec{-1, -1, 0}, c, false, false)
	}
	return x.idx.Add(csiRec{r.Ref, r.Start, r.End}, c, r.Mapped, true)
}
func (x *csiIdx) query(ref, beg, end int) ([]bgzf.Chunk, error) {
	return x.idx.Chunks(ref, beg, end), nil
}
func (x *csiIdx) merge(s index.MergeStrategy) { x.idx.MergeChunks(s) }
func (x *csiIdx) write() ([]byte, error) {
	var buf bytes.Buffer
	err := csi.WriteTo(&buf, x.idx)
	return buf.Bytes(), err
}
func (x *csiIdx) reread(p []byte) (anyIndex, error) {
	idx, err := csi.ReadFrom(bytes.NewReader(p))
	if err != nil || idx == nil {
		return nil, fmt.Errorf("ReadFrom: idx=%v err=%v", idx != nil, err)
	}
	return &csiIdx{idx: idx}, nil
}
func (x *csiIdx) numRefs() int                             { return x.idx.NumRefs() }
func (x *csiIdx) stats(i int) (index.ReferenceStats, bool) { return x.idx.ReferenceStats(i) }
func (x *csiIdx) unmapped() (uint64, bool)                 { return x.idx.Unmapped() }
func (x *csiIdx) kind() string                             { return "csi" }

// idxCase is a generated record set with its chunks.
type idxCase struct {
	kind   string
	set    gen.ISet
	chunks []bgzf.Chunk
	refs   []*sam.Reference
	names  []string
	ver    byte
	aux    []byte
	desc   string
	bamBuf []byte // real mode: the BAM file
	// checkpoints: query or write the index part-way through the build
	checkpoints bool
}

func (ic *idxCase) fresh(rng *rand.Rand) anyIndex {
	switch ic.kind {
	case "bai":
		return &baiIdx{idx: &bam.Index{}, refs: ic.refs}
	case "tabix":
		t := tabix.New()
		return &tbxIdx{idx: t, names: ic.names}
	}
	x := csi.New(ic.set.MinShift, ic.set.Depth)
	if ic.ver != 0 {
		x.Version = ic.ver
	}
	x.Auxilliary = ic.aux
	return &csiIdx{idx: x}
}

// build adds every record; it returns the index or the violation text.
func (ic *idxCase) build(rng *rand.Rand) (anyIndex, string, string) {
	ix := ic.fresh(rng)
	// In some cases the index is queried or written part-way through the
	// build (a checkpoint), then added to again.
	check1, check2 := -1, -1
	if len(ic.set.Recs) > 2 && ic.checkpoints {
		check1 = 1 + rng.Intn(len(ic.set.Recs)-1)
		check2 = 1 + rng.Intn(len(ic.set.Recs)-1)
	}
	for i, rec := range ic.set.Recs {
		if i == check1 || i == check2 {
			pv, st := core.Recover(func() {
				if rng.Intn(2) == 0 {
					ix.write()
				} else {
					for ref := 0; ref < ic.set.NRefs; ref++ {
						b, e := 0, ic.set.Max()-1
						if c := gen.SpanCap(ic.set.MinShift, ic.set.Depth); c > 0 {
							// around the record just added
							b = rec.Start / c * c
							e = b + c
						}
						ix.query(ref, b, e)
					}
				}
			})
			if pv != nil {
				return nil, "checkpoint-panic|" + core.TopLibFrame(st), fmt.Sprintf("query/write after %d of %d records panicked: %v", i, len(ic.set.Recs), pv)
			}
		}
		var err error
		pv, st := core.Recover(func() { err = ix.add(rec, ic.chunks[i]) })
		if pv != nil {
			return nil, "add-panic|" + core.TopLibFrame(st), fmt.Sprintf("Add of record %d %+v (chunk %v) panicked: %v", i, rec, ic.chunks[i], pv)
		}
		if err != nil {
			return nil, "add-error", fmt.Sprintf("Add of record %d %+v in sorted order failed: %v", i, rec, err)
		}
	}
	return ix, "", ""
}

func newIdxCase(rng *rand.Rand, kind string, geom int, real bool) (*idxCase, string, string) {
	ic := &idxCase{kind: kind}
	m, d := 14, 5
	if kind == "csi" {
		m, d = csiGeoms[geom][0], csiGeoms[geom][1]
		ic.ver = byte(1 + rng.Intn(2))
		if rng.Intn(2) == 0 {
			ic.aux = make([]byte, rng.Intn(40))
			rng.Read(ic.aux)
		}
	}
	ic.set = gen.RandISet(rng, m, d)
	ic.refs = newRefs(ic.set.NRefs)
	for i := 0; i < ic.set.NRefs; i++ {
		ic.names = append(ic.names, fmt.Sprintf("%s%d", []string{"chr", "contig_", "s"}[rng.Intn(3)], i))
	}
	ic.checkpoints = rng.Intn(3) == 0
	ic.desc = fmt.Sprintf("kind=%s minShift=%d depth=%d refs=%d records=%d real=%v checkpoints=%v", kind, m, d, ic.set.NRefs, len(ic.set.Recs), real, ic.checkpoints)
	if real {
		// write the records with bam.Writer, read back, use LastChunk
		h, _ := sam.NewHeader(nil, nil)
		refs := newRefs(ic.set.NRefs)
		for _, r := range refs {
			_ = r
		}
		ic.refs = refs
		h, _ = sam.NewHeader(nil, nil)
		// NewHeader above owns nothing; build a header owning refs
		ic.refs = nil
		for i := 0; i < ic.set.NRefs; i++ {
			r, _ := sam.NewReference(fmt.Sprintf("ref%d", i), "", "", 1<<29, nil, nil)
			h.AddReference(r)
			ic.refs = append(ic.refs, r)
		}
		var buf bytes.Buffer
		bw, err := bam.NewWriter(&buf, h, 1)
		if err != nil {
			return nil, "harness", err.Error()
		}
		for _, r := range ic.set.Recs {
			rec := iRecToSam(r, ic.refs)
			pad := make([]byte, r.Size)
			for k := range pad {
				pad[k] = 'x'
			}
			a, _ := sam.NewAux(sam.NewTag("XP"), sam.Text(pad))
			rec.AuxFields = append(rec.AuxFields, a)
			if err := bw.Write(rec); err != nil {
				return nil, "harness", err.Error()
			}
		}
		bw.Close()
		ic.bamBuf = buf.Bytes()
		br, err := bam.NewReader(bytes.NewReader(ic.bamBuf), 1)
		if err != nil {
			return nil, "harness", err.Error()
		}
		// the index is built against the reader's header references
		ic.refs = br.Header().Refs()
		for range ic.set.Recs {
			if _, err := br.Read(); err != nil {
				return nil, "harness", "reading back: " + err.Error()
			}
			ic.chunks = append(ic.chunks, br.LastChunk())
		}
		br.Close()
		return ic, "", ""
	}
	// tabix and CSI index files without a header: the first record may sit at offset 0
	f, spans := gen.Layout(rng, ic.set.Recs, kind != "bai" && rng.Intn(3) == 0)
	for _, sp := range spans {
		bb, bo := f.VOffset(sp[0])
		forms := f.VOffsetEnd(sp[1])
		e := forms[0]
		ic.chunks = append(ic.chunks, bgzf.Chunk{Begin: bgzf.Offset{File: bb, Block: uint16(bo)}, End: bgzf.Offset{File: e[0], Block: uint16(e[1])}})
	}
	return ic, "", ""
}

// queries for a record set.
func (ic *idxCase) queries(rng *rand.Rand) [][3]int {
	max := ic.set.Max()
	tile := 1 << uint(ic.set.MinShift)
	set := map[[3]int]bool{}
	add := func(ref, b, e int) {
		if b < 0 {
			b = 0
		}
		if e > max-1 {
			e = max - 1
		}
		if c := gen.SpanCap(ic.set.MinShift, ic.set.Depth); c > 0 && e-b > c {
			e = b + c
		}
		if e > b && ref >= 0 && ref < ic.set.NRefs {
			set[[3]int{ref, b, e}] = true
		}
	}
	for _, r := range ic.set.Recs {
		if r.Ref < 0 {
			continue
		}
		add(r.Ref, r.Start-1, r.Start)
		add(r.Ref, r.Start, r.Start+1)
		add(r.Ref, r.End-1, r.End)
		add(r.Ref, r.End, r.End+1)
		add(r.Ref, r.Start/tile*tile, r.Start/tile*tile+tile)
		add(r.Ref, (r.End-1)/tile*tile, (r.End-1)/tile*tile+tile) // the last tile the record touches
		add(r.Ref, (r.End-1)/tile*tile+tile/2, (r.End-1)/tile*tile+tile)
		lv := rng.Intn(ic.set.Depth + 1)
		w := tile << uint(3*lv)
		add(r.Ref, r.Start/w*w, r.Start/w*w+w)
		add(r.Ref, r.Start+rng.Intn(r.End-r.Start), r.Start+rng.Intn(r.End-r.Start)+1+rng.Intn(3*tile))
	}
	for ref := 0; ref < ic.set.NRefs; ref++ {
		add(ref, 0, max-1)
		for k := 0; k < 6; k++ {
			b := rng.Intn(max - 1)
			add(ref, b, b+1+rng.Intn(4*tile))
		}
	}
	out := make([][3]int, 0, len(set))
	for q := range set {
		out = append(out, q)
	}
	sort.Slice(out, func(i, j int) bool {
		for k := 0; k < 3; k++ {
			if out[i][k] != out[j][k] {
				return out[i][k] < out[j][k]
			}
		}
		return false
	})
	return out
}

// checkQueries verifies completeness of ix on the query set. It returns the
// number of queries with at least one overlapping record.
func (ic *idxCase) checkQueries(r *core.Result, ix anyIndex, qs [][3]int, variant string) int {
	hits := 0
	for _, q := range qs {
		var chunks []bgzf.Chunk
		var err error
		pv, st := core.Recover(func() { chunks, err = ix.query(q[0], q[1], q[2]) })
		if pv != nil {
			r.Violate(ic.kind+"|query-panic|"+core.TopLibFrame(st), "%s variant=%s: Chunks(ref %d, %d, %d) panicked: %v", ic.desc, variant, q[0], q[1], q[2], pv)
			return hits
		}
		u := unionOf(chunks)
		any := false
		for i, rec := range ic.set.Recs {
			if rec.Ref != q[0] || !(rec.Start < q[2] && q[1] < rec.End) {
				continue
			}
			any = true
			c := ic.chunks[i]
			if !covers(u, ival{vo(c.Begin), vo(c.End)}) {
				why := fmt.Sprintf("returned %d chunks %s", len(chunks), chunkStr(trimChunks(chunks)))
				if err != nil {
					why = "returned the error " + err.Error()
				}
				r.Violate(ic.kind+"|incomplete|"+variant, "%s variant=%s: query ref %d [%d,%d) overlaps record %d [%d,%d) whose chunk %s is not covered: Chunks %s", ic.desc, variant, q[0], q[1], q[2], i, rec.Start, rec.End, chunkStr([]bgzf.Chunk{c}), why)
				return hits
			}
		}
		if any {
			hits++
		}
		r.Count("queries", 1)
	}
	return hits
}

func trimChunks(c []bgzf.Chunk) []bgzf.Chunk {
	if len(c) > 8 {
		return c[:8]
	}
	return c
}

var mergeStrats = []struct {
	name string
	f    index.MergeStrategy
}{
	{"identity", index.Identity}, {"adjacent", index.Adjacent}, {"squash", index.Squash},
	{"compressor0", index.CompressorStrategy(0)}, {"compressor65536", index.CompressorStrategy(65536)},
}

func c04Run(c core.Case) *core.Result {
	r := core.NewResult()
	rng := c.Rng()
	ic, cls, d := newIdxCase(rng, c.Kind, c.Int("geom"), c.Int("real") == 1)
	if cls != "" {
		r.Violate("harness|"+cls, "%s", d)
		return r
	}
	r.FP = core.Hash(ic.desc, fmt.Sprint(ic.set.Recs))
	sample := ic.set.Recs
	if len(sample) > 6 {
		sample = sample[:6]
	}
	r.Sample = map[string]any{"config": ic.desc, "first_records": fmt.Sprint(sample)}
	ix, cls, d := ic.build(rng)
	if cls != "" {
		r.Violate(ic.kind+"|"+cls, "%s: %s", ic.desc, d)
		return r
	}
	qs := ic.queries(rng)
	hits := ic.checkQueries(r, ix, qs, "built")
	// empty and reversed intervals overlap no record: whatever is returned,
	// the call returns and does not panic
	for _, q := range [][2]int{{0, 0}, {7, 7}, {100, 3}, {1 << 14, 1 << 14}, {-5, 2}} {
		pv, st := core.Recover(func() { ix.query(0, q[0], q[1]) })
		if pv != nil {
			r.Violate(ic.kind+"|degenerate-query-panic|"+core.TopLibFrame(st), "%s: query [%d,%d) panicked: %v", ic.desc, q[0], q[1], pv)
			return r
		}
		r.Count("degenerate_queries", 1)
	}
	spanning := false
	tile := 1 << uint(ic.set.MinShift)
	for _, rec := range ic.set.Recs {
		if rec.Ref >= 0 && rec.Start/tile != (rec.End-1)/tile {
			spanning = true
		}
	}
	r.Nontrivial = hits >= 1 && spanning
	if len(r.Viol) > 0 {
		return r
	}
	// real mode: iterate the returned chunks
	if ic.bamBuf != nil {
		br, err := bam.NewReader(bytes.NewReader(ic.bamBuf), 1)
		if err != nil {
			r.Violate("harness|reopen", "%v", err)
			return r
		}
		for _, q := range qs {
			chunks, err := ix.query(q[0], q[1], q[2])
			got := map[string]bool{}
			if err == nil && len(chunks) > 0 {
				it, ierr := bam.NewIterator(br, chunks)
				if ierr != nil {
					r.Violate("bai|iterator", "%s: NewIterator(%v): %v", ic.desc, chunks, ierr)
					break
				}
				for it.Next() {
					got[it.Record().Name] = true
				}
				if e := it.Close(); e != nil && e != io.EOF {
					r.Violate("bai|iterator", "%s: iterating the chunks of query %v: %v", ic.desc, q, e)
					break
				}
			}
			for i, rec := range ic.set.Recs {
				if rec.Ref == q[0] && rec.Start < q[2] && q[1] < rec.End && !got[rec.Name] {
					r.Violate("bai|iterator-misses-record", "%s: query ref %d [%d,%d): iterating the returned chunks %s does not yield overlapping record %d %s [%d,%d)", ic.desc, q[0], q[1], q[2], chunkStr(trimChunks(chunks)), i, rec.Name, rec.Start, rec.End)
					break
				}
			}
			if len(r.Viol) > 0 {
				break
			}
			r.Count("queries_iterated", 1)
		}
		br.Close()
		if len(r.Viol) > 0 {
			return r
		}
	}
	// variants: merge strategies, write+read, both
	for _, ms := range mergeStrats {
		mx, cls, d := ic.build(rng)
		if cls != "" {
			r.Violate(ic.kind+"|"+cls, "%s: %s", ic.desc, d)
			return r
		}
		pv, st := core.Recover(func() { mx.merge(ms.f) })
		if pv != nil {
			r.Violate(ic.kind+"|merge-panic|"+core.TopLibFrame(st), "%s: MergeChunks(%s) panicked: %v", ic.desc, ms.name, pv)
			return r
		}
		ic.checkQueries(r, mx, qs, "merged-"+ms.name)
		if len(r.Viol) > 0 {
			return r
		}
		// BAI: the strategy applied to the chunks a query returns can be
		// chosen too (Index.MergeStrategy); no choice may lose coverage
		if bx, ok := mx.(*baiIdx); ok {
			qsn := mergeStrats[rng.Intn(len(mergeStrats))]
			bx.idx.MergeStrategy = qsn.f
			ic.checkQueries(r, mx, qs, "merged-"+ms.name+"+query-"+qsn.name)
			bx.idx.MergeStrategy = nil
			r.Count("bai_query_strategy_variants", 1)
			if len(r.Viol) > 0 {
				return r
			}
		}
		if ms.name == "adjacent" || ms.name == "compressor65536" {
			b, err := mx.write()
			if err != nil {
				r.Violate(ic.kind+"|write-error", "%s: writing the merged index: %v", ic.desc, err)
				return r
			}
			rx, err := mx.reread(b)
			if err != nil {
				r.Violate(ic.kind+"|reread-error", "%s: reading back the written index: %v", ic.desc, err)
				return r
			}
			ic.checkQueries(r, rx, qs, "merged-"+ms.name+"+reread")
			if len(r.Viol) > 0 {
				return r
			}
		}
	}
	b, err := ix.write()
	if err != nil {
		r.Violate(ic.kind+"|write-error", "%s: writing the index: %v", ic.desc, err)
		return r
	}
	var rx anyIndex
	pv, st := core.Recover(func() { rx, err = ix.reread(b) })
	if pv != nil {
		r.Violate(ic.kind+"|reread-panic|"+core.TopLibFrame(st), "%s: reading back the written index panicked: %v", ic.desc, pv)
		return r
	}
	if err != nil {
		onlyUnplaced := true
		for _, rec := range ic.set.Recs {
			if rec.Ref >= 0 {
				onlyUnplaced = false
			}
		}
		if !onlyUnplaced {
			r.Violate(ic.kind+"|reread-error", "%s: reading back the written index: %v", ic.desc, err)
		}
		return r
	}
	ic.checkQueries(r, rx, qs, "reread")
	return r
}
