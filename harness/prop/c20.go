package prop

import (
	"bufio"
	"bytes"
	"encoding/binary"
	"fmt"
	"hash/crc32"
	"io"
	"math/rand"
	"strings"
	"sync"

	"github.com/biogo/hts/cram"
	"github.com/biogo/hts/cram/encoding/itf8"
	"github.com/biogo/hts/cram/encoding/ltf8"

	"verif/core"
	"verif/oracle"
)

func init() {
	core.Register(&core.Prop{
		ID:    "C20",
		Level: "exploration",
		Rule: "each int32/int64 value is one evaluation: Encode into a canary-filled buffer, compare count with Len and with the CRAM-spec oracle, compare bytes with the oracle, Decode back (also with one byte missing and with trailing bytes). " +
			"quick: stratified values (length-class boundaries ±2, all 1- and 2-bit patterns and their complements, seeded random per class); thorough: every int32 (2^32 values in 256 range cases) plus the stratified int64 set. " +
			"distinct_nontrivial counts distinct values in range/stratified cases (they partition or de-duplicate their value lists); random-sample cases count once each. Decode totality: 256 first bytes × lengths 0..9 × 3 fills. cram stream cases: containers built by the independent encoder (header fields of random bit widths, so every ITF-8/LTF-8 length class) reach cram.NewReader whole or through sources that return 1 byte, 1-11 bytes, random short reads, the last bytes together with io.EOF, or through a 16-byte bufio.Reader; every container's decoded header fields must equal the encoded ones, all blocks must be delivered, and a whole source must be consumed exactly.",
		Floor:       map[string]int{"quick": 5000, "thorough": 1 << 32},
		Plan:        c20Plan,
		Run:         c20Run,
		Exhaustive:  false,
		ExhaustNote: "thorough tier enumerates all 2^32 int32 values for ITF-8; LTF-8 (2^64) is stratified only",
		Assumptions: []string{"oracle/tf8.go is a faithful transcription of CRAM spec section 2.3", "for the 5-byte ITF-8 form the high nibble of the last byte may be 0 (htslib) or bits 4..7 of the value (htsjdk)"},
		TimeoutS:    map[string]int{"quick": 600, "thorough": 3000},
	})
}

func c20Plan(seed int64, tier string) []core.Case {
	var cs []core.Case
	cs = append(cs, core.Case{Kind: "itf8-strat", Seed: core.SubSeed(seed, "i8s")})
	cs = append(cs, core.Case{Kind: "ltf8-strat", Seed: core.SubSeed(seed, "l8s")})
	cs = append(cs, core.Case{Kind: "decode-total", Seed: core.SubSeed(seed, "dt")})
	nr, ns := 8, 120
	if tier == "thorough" {
		nr, ns = 32, 2000
		for i := int64(0); i < 256; i++ {
			cs = append(cs, core.Case{Kind: "itf8-range", P: map[string]int64{"lo": i << 24, "hi": (i + 1) << 24}})
		}
	}
	for i := 0; i < nr; i++ {
		cs = append(cs, core.Case{Kind: "itf8-random", Seed: core.SubSeed(seed, "i8r", i), P: map[string]int64{"n": 500000}})
		cs = append(cs, core.Case{Kind: "ltf8-random", Seed: core.SubSeed(seed, "l8r", i), P: map[string]int64{"n": 250000}})
	}
	for i := 0; i < ns; i++ {
		// every tenth also under the race detector: each child process starts
		// with concurrent first uses of the codecs (see c20ColdStart)
		cs = append(cs, core.Case{Kind: "cram-stream", Seed: core.SubSeed(seed, "cs", i), Race: i%10 == 0})
	}
	return cs
}

var (
	c20Cold     sync.Once
	c20ColdFail string
)

// c20ColdStart makes the very first uses of the codecs in this process come
// from several goroutines at once (lazily built tables and the like must be
// safe for that); it runs before the first case of every child process.
func c20ColdStart() string {
	c20Cold.Do(func() {
		type iv struct {
			b []byte
			v int32
		}
		var ivs []iv
		for _, v := range []int32{0, 1, 127, 128, 300, 16383, 16384, 1 << 21, 1<<28 - 1, 1 << 28, -1, -128} {
			b, _ := oracle.ITF8Encode(v)
			ivs = append(ivs, iv{b, v})
		}
		lvs := []int64{0, 127, 128, 1 << 14, 1 << 21, 1 << 28, 1 << 35, 1 << 42, 1 << 49, 1 << 56, -1}
		var mu sync.Mutex
		var wg sync.WaitGroup
		start := make(chan struct{})
		for g := 0; g < 8; g++ {
			wg.Add(1)
			go func(g int) {
				defer wg.Done()
				<-start
				for k := range ivs {
					x := ivs[(k+g)%len(ivs)]
					if v, n, ok := itf8.Decode(x.b); !ok || n != len(x.b) || v != x.v {
						mu.Lock()
						c20ColdFail = fmt.Sprintf("itf8.Decode(% x) = (%d, %d, %v) in the first concurrent use of the process, want (%d, %d, true)", x.b, v, n, ok, x.v, len(x.b))
						mu.Unlock()
					}
					var buf [5]byte
					if n := itf8.Encode(buf[:], x.v); n != len(x.b) {
						mu.Lock()
						c20ColdFail = fmt.Sprintf("itf8.Encode(%d) wrote %d bytes in the first concurrent use of the process, want %d", x.v, n, len(x.b))
						mu.Unlock()
					}
				}
				for k := range lvs {
					lv := lvs[(k+g)%len(lvs)]
					e := oracle.LTF8Encode(lv)
					if v, n, ok := ltf8.Decode(e); !ok || n != len(e) || v != lv {
						mu.Lock()
						c20ColdFail = fmt.Sprintf("ltf8.Decode(% x) = (%d, %d, %v) in the first concurrent use of the process, want (%d, %d, true)", e, v, n, ok, lv, len(e))
						mu.Unlock()
					}
				}
			}(g)
		}
		close(start)
		wg.Wait()
	})
	return c20ColdFail
}

func c20CheckI(r *core.Result, v int32) {
	var buf [16]byte
	for i := range buf {
		buf[i] = 0xAA
	}
	n := itf8.Encode(buf[:], v)
	want, alt := oracle.ITF8Encode(v)
	if n != len(want) || n != itf8.Len(v) {
		r.Violate("itf8|count", "v=%d: Encode wrote %d bytes, Len=%d, spec length %d", v, n, itf8.Len(v), len(want))
		return
	}
	got := buf[:n]
	okb := bytes.Equal(got[:n-1], want[:n-1]) && (got[n-1] == want[n-1] || got[n-1] == alt)
	if !okb {
		r.Violate(fmt.Sprintf("itf8|bytes|len%d", n), "v=%d (0x%08x): Encode=% x, spec=% x (last byte may also be %02x)", v, uint32(v), got, want, alt)
	}
	for i := n; i < len(buf); i++ {
		if buf[i] != 0xAA {
			r.Violate("itf8|overrun", "v=%d: Encode wrote beyond its reported length %d: % x", v, n, buf[:])
			break
		}
	}
	dv, dn, ok := itf8.Decode(buf[:n])
	if !ok || dn != n || dv != v {
		r.Violate(fmt.Sprintf("itf8|roundtrip|len%d", n), "v=%d: Decode(Encode(v)) = (%d,%d,%v), bytes % x", v, dv, dn, ok, got)
	}
	// Decode of the specification's bytes must give v too (codec is the spec's, not merely self-inverse).
	sv, sn, sok := itf8.Decode(want)
	if !sok || sn != n || sv != v {
		r.Violate(fmt.Sprintf("itf8|decode-spec|len%d", n), "v=%d: Decode(spec bytes % x) = (%d,%d,%v)", v, want, sv, sn, sok)
	}
	if n > 1 {
		_, dn2, ok2 := itf8.Decode(buf[:n-1])
		if ok2 || dn2 != n {
			r.Violate("itf8|short", "v=%d: Decode of %d of %d bytes = (n=%d, ok=%v), want (n=%d, ok=false)", v, n-1, n, dn2, ok2, n)
		}
	}
	dv3, dn3, ok3 := itf8.Decode(buf[:])
	if !ok3 || dn3 != n || dv3 != v {
		r.Violate("itf8|trailing", "v=%d: Decode with trailing bytes = (%d,%d,%v)", v, dv3, dn3, ok3)
	}
}

func c20CheckL(r *core.Result, v int64) {
	var buf [20]byte
	for i := range buf {
		buf[i] = 0xAA
	}
	n := ltf8.Encode(buf[:], v)
	want := oracle.LTF8Encode(v)
	if n != len(want) || n != ltf8.Len(v) {
		r.Violate("ltf8|count", "v=%d: Encode wrote %d bytes, Len=%d, spec length %d", v, n, ltf8.Len(v), len(want))
		return
	}
	got := buf[:n]
	if !bytes.Equal(got, want) {
		r.Violate(fmt.Sprintf("ltf8|bytes|len%d", n), "v=%d (0x%016x): Encode=% x, spec=% x", v, uint64(v), got, want)
	}
	for i := n; i < len(buf); i++ {
		if buf[i] != 0xAA {
			r.Violate("ltf8|overrun", "v=%d: Encode wrote beyond its reported length %d: % x", v, n, buf[:])
			break
		}
	}
	dv, dn, ok := ltf8.Decode(buf[:n])
	if !ok || dn != n || dv != v {
		r.Violate(fmt.Sprintf("ltf8|roundtrip|len%d", n), "v=%d: Decode(Encode(v)) = (%d,%d,%v), bytes % x", v, dv, dn, ok, got)
	}
	sv, sn, sok := ltf8.Decode(want)
	if !sok || sn != n || sv != v {
		r.Violate(fmt.Sprintf("ltf8|decode-spec|len%d", n), "v=%d: Decode(spec bytes % x) = (%d,%d,%v)", v, want, sv, sn, sok)
	}
	if n > 1 {
		_, dn2, ok2 := ltf8.Decode(buf[:n-1])
		if ok2 || dn2 != n {
			r.Violate("ltf8|short", "v=%d: Decode of %d of %d bytes = (n=%d, ok=%v)", v, n-1, n, dn2, ok2)
		}
	}
	dv3, dn3, ok3 := ltf8.Decode(buf[:])
	if !ok3 || dn3 != n || dv3 != v {
		r.Violate("ltf8|trailing", "v=%d: Decode with trailing bytes = (%d,%d,%v)", v, dv3, dn3, ok3)
	}
}

func stratU64(bits uint, rng *rand.Rand, perClass int) []uint64 {
	set := map[uint64]bool{}
	mask := ^uint64(0)
	if bits < 64 {
		mask = 1<<bits - 1
	}
	add := func(u uint64) { set[u&mask] = true }
	for k := uint(0); k <= bits; k++ {
		var b uint64
		if k < 64 {
			b = 1 << k
		}
		for d := int64(-3); d <= 3; d++ {
			add(b + uint64(d))
		}
	}
	for i := uint(0); i < bits; i++ {
		add(1 << i)
		add(^(uint64(1) << i))
		for j := i + 1; j < bits; j++ {
			add(1<<i | 1<<j)
			add(^(uint64(1)<<i | 1<<j))
		}
	}
	// every 7-bit length class: random interior values
	for k := uint(1); k*7 <= bits+7; k++ {
		hi := k * 7
		if hi > bits {
			hi = bits
		}
		for i := 0; i < perClass; i++ {
			var u uint64
			if hi >= 64 {
				u = rng.Uint64()
			} else {
				u = rng.Uint64() % (1 << hi)
			}
			add(u)
		}
	}
	out := make([]uint64, 0, len(set))
	for u := range set {
		out = append(out, u)
	}
	return out
}

func c20Run(c core.Case) *core.Result {
	r := core.NewResult()
	r.Nontrivial = true
	r.FP = core.Hash(c.Kind, c.Seed, c.P)
	rng := c.Rng()
	if f := c20ColdStart(); f != "" {
		r.Violate("cold-start|concurrent-first-use", "%s", f)
		c20ColdFail = "" // reported once per process
	}
	switch c.Kind {
	case "itf8-range":
		lo, hi := c.Int64("lo"), c.Int64("hi")
		for u := lo; u < hi; u++ {
			c20CheckI(r, int32(uint32(u)))
			if len(r.Viol) >= 8 {
				break
			}
		}
		r.Evals = hi - lo
		r.DistinctNT = hi - lo
		r.Count("itf8_values", hi-lo)
		r.Sample = fmt.Sprintf("all int32 bit patterns 0x%08x..0x%08x", lo, hi-1)
	case "itf8-strat":
		vals := stratU64(32, rng, 2000)
		for _, u := range vals {
			c20CheckI(r, int32(uint32(u)))
		}
		r.Evals = int64(len(vals))
		r.DistinctNT = int64(len(vals))
		r.Count("itf8_values", int64(len(vals)))
		r.Sample = fmt.Sprintf("%d stratified int32 values, e.g. %d %d %d", len(vals), int32(uint32(vals[0])), int32(uint32(vals[1])), int32(uint32(vals[2])))
	case "itf8-random":
		n := c.Int64("n")
		for i := int64(0); i < n; i++ {
			c20CheckI(r, int32(rng.Uint32()))
		}
		r.Evals = n
		r.Count("itf8_values", n)
	case "ltf8-strat":
		vals := stratU64(64, rng, 4000)
		cls := map[int]int{}
		for _, u := range vals {
			c20CheckL(r, int64(u))
			cls[oracle.LTF8Len(int64(u))]++
		}
		r.Evals = int64(len(vals))
		r.DistinctNT = int64(len(vals))
		r.Count("ltf8_values", int64(len(vals)))
		for k := 1; k <= 9; k++ {
			if cls[k] == 0 {
				r.Violate("harness|ltf8-class-empty", "stratified set has no value of encoded length %d", k)
			}
			r.Add("ltf8_length_classes", fmt.Sprint(k))
		}
		r.Sample = fmt.Sprintf("%d stratified int64 values over all nine length classes %v", len(vals), cls)
	case "ltf8-random":
		n := c.Int64("n")
		for i := int64(0); i < n; i++ {
			// spread over length classes: random bit width
			w := uint(rng.Intn(64) + 1)
			u := rng.Uint64()
			if w < 64 {
				u &= 1<<w - 1
			}
			c20CheckL(r, int64(u))
		}
		r.Evals = n
		r.Count("ltf8_values", n)
	case "decode-total":
		var n int64
		for first := 0; first < 256; first++ {
			for l := 0; l <= 9; l++ {
				for fill := 0; fill < 3; fill++ {
					b := make([]byte, l)
					for i := range b {
						switch fill {
						case 0:
							b[i] = 0
						case 1:
							b[i] = 0xff
						default:
							b[i] = byte(rng.Intn(256))
						}
					}
					if l > 0 {
						b[0] = byte(first)
					}
					n++
					c20DecodeTotal(r, b)
				}
			}
		}
		r.Evals = n
		r.DistinctNT = n
		r.Count("decode_inputs", n)
		r.Sample = "all 256 first bytes x lengths 0..9 x fills {00,ff,random}"
	case "cram-stream":
		c20Cram(r, rng)
		r.Count("cram_streams", 1)
	}
	return r
}

func c20DecodeTotal(r *core.Result, b []byte) {
	pv, st := core.Recover(func() {
		v, n, ok := itf8.Decode(b)
		ov, on, ook := oracle.ITF8Decode(b)
		if n != on || ok != ook || (ok && v != ov) {
			r.Violate("itf8|decode-any", "Decode(% x) = (%d,%d,%v), spec (%d,%d,%v)", b, v, n, ok, ov, on, ook)
		}
		if ok {
			// must not depend on bytes beyond n
			b2 := append([]byte(nil), b...)
			for i := n; i < len(b2); i++ {
				b2[i] ^= 0x5a
			}
			v2, n2, ok2 := itf8.Decode(b2)
			if v2 != v || n2 != n || !ok2 {
				r.Violate("itf8|decode-reads-beyond", "Decode(% x) changes when bytes beyond %d change", b, n)
			}
		}
		lv, ln, lok := ltf8.Decode(b)
		olv, oln, olok := oracle.LTF8Decode(b)
		if ln != oln || lok != olok || (lok && lv != olv) {
			r.Violate("ltf8|decode-any", "Decode(% x) = (%d,%d,%v), spec (%d,%d,%v)", b, lv, ln, lok, olv, oln, olok)
		}
		if lok {
			b2 := append([]byte(nil), b...)
			for i := ln; i < len(b2); i++ {
				b2[i] ^= 0x5a
			}
			v2, n2, ok2 := ltf8.Decode(b2)
			if v2 != lv || n2 != ln || !ok2 {
				r.Violate("ltf8|decode-reads-beyond", "Decode(% x) changes when bytes beyond %d change", b, ln)
			}
		}
	})
	if pv != nil {
		r.Violate("panic|tf8.Decode|"+core.TopLibFrame(st), "Decode(% x) panicked: %v", b, pv)
	}
}

// c20Cram feeds the cram stream readers containers built by the independent
// encoder and checks that every container and block is consumed exactly.
func c20Cram(r *core.Result, rng *rand.Rand) {
	var f bytes.Buffer
	f.WriteString("CRAM")
	f.Write([]byte{3, 0})
	f.Write(make([]byte, 20))
	nc := 1 + rng.Intn(4)
	type want struct {
		blocks int
		hdr    string // the header fields as fmt prints them
	}
	var wants []want
	bounds := []int{26} // stream offsets at which a container (or the definition) ends
	randI := func() int32 {
		w := uint(rng.Intn(32) + 1)
		u := rng.Uint32()
		if w < 32 {
			u &= 1<<w - 1
		}
		return int32(u)
	}
	randL := func() int64 {
		w := uint(rng.Intn(64) + 1)
		u := rng.Uint64()
		if w < 64 {
			u &= 1<<w - 1
		}
		return int64(u)
	}
	i8 := func(v int32) []byte { b, _ := oracle.ITF8Encode(v); return b }
	for ci := 0; ci < nc; ci++ {
		nb := rng.Intn(4)
		var blocks bytes.Buffer
		for bi := 0; bi < nb; bi++ {
			var b bytes.Buffer
			b.WriteByte(0)                     // raw
			b.WriteByte(byte(4 + rng.Intn(2))) // external / core data
			b.Write(i8(randI()))
			n := rng.Intn(300)
			b.Write(i8(int32(n)))
			b.Write(i8(int32(n)))
			data := make([]byte, n)
			rng.Read(data)
			b.Write(data)
			var crc [4]byte
			binary.LittleEndian.PutUint32(crc[:], crc32.ChecksumIEEE(b.Bytes()))
			b.Write(crc[:])
			blocks.Write(b.Bytes())
		}
		var h bytes.Buffer
		var l4 [4]byte
		binary.LittleEndian.PutUint32(l4[:], uint32(blocks.Len()))
		h.Write(l4[:])
		f4 := []int32{randI(), randI(), randI(), randI()} // refID, start, span, nRec
		for _, v := range f4 {
			h.Write(i8(v))
		}
		rc, bs := randL(), randL()
		h.Write(oracle.LTF8Encode(rc))
		h.Write(oracle.LTF8Encode(bs))
		h.Write(i8(int32(nb)))
		nl := rng.Intn(5)
		h.Write(i8(int32(nl)))
		lm := make([]int32, nl)
		for k := 0; k < nl; k++ {
			lm[k] = randI()
			h.Write(i8(lm[k]))
		}
		hdr := fmt.Sprintf("refID:%d start:%d span:%d nRec:%d recCount:%d bases:%d blocks:%d landmarks:%v", f4[0], f4[1], f4[2], f4[3], rc, bs, nb, lm)
		var crc [4]byte
		binary.LittleEndian.PutUint32(crc[:], crc32.ChecksumIEEE(h.Bytes()))
		h.Write(crc[:])
		f.Write(h.Bytes())
		f.Write(blocks.Bytes())
		wants = append(wants, want{nb, hdr})
		bounds = append(bounds, f.Len())
	}
	total := f.Len()
	whole := bytes.NewReader(f.Bytes())
	// The stream reaches the reader whole, or through a source that returns
	// short reads (1-11 bytes, 1 byte, random lengths) or its last bytes
	// together with io.EOF: the announced remainder of a multi-byte value must
	// be fetched completely whatever the source does.
	var src io.Reader = whole
	sk := rng.Intn(6)
	switch sk {
	case 1:
		src = &dribble{b: f.Bytes(), x: rng.Uint64()}
	case 2:
		src = iotest1{whole}
	case 3:
		src = wrapSource(f.Bytes(), 2, rng)
	case 4:
		src = &eagerEOF{b: f.Bytes(), max: 1 + rng.Intn(7)}
	case 5:
		src = bufio.NewReaderSize(whole, 16)
	}
	r.Count(fmt.Sprintf("cram_source_kind_%d", sk), 1)
	pv, st := core.Recover(func() {
		cr, err := cram.NewReader(src)
		if err != nil {
			r.Violate("cram|definition", "NewReader on a spec-built stream: %v", err)
			return
		}
		ci := 0
		for cr.Next() {
			ct := cr.Container()
			// the decoded header fields (unexported; fmt prints them)
			// (observed through the private field names of this version of
			// the package; if they are not all there the values are not
			// observable and the clause is counted as not judged)
			if got := fmt.Sprintf("%+v", *ct); ci < len(wants) {
				observable := true
				for _, f := range []string{"refID:", "start:", "span:", "nRec:", "recCount:", "bases:", "blocks:", "landmarks:"} {
					if !strings.Contains(got, f) {
						observable = false
					}
				}
				switch {
				case !observable:
					r.Count("cram_header_values_not_observable", 1)
				case !strings.Contains(got, wants[ci].hdr+" "):
					r.Violate("cram|header-values", "container %d read through source kind %d: decoded %s, encoded %s", ci, sk, got, wants[ci].hdr)
				default:
					r.Count("cram_header_values_checked", 1)
				}
			}
			nb := 0
			for ct.Next() {
				if _, err := ct.Block().Value(); err != nil {
					r.Violate("cram|block-value", "Block.Value: %v", err)
				}
				nb++
			}
			if ct.Err() != nil {
				r.Violate("cram|container-err", "container %d: %v", ci, ct.Err())
			}
			if ci < len(wants) && nb != wants[ci].blocks {
				r.Violate("cram|block-count", "container %d: read %d blocks, built %d", ci, nb, wants[ci].blocks)
			}
			ci++
		}
		if cr.Err() != nil {
			r.Violate("cram|reader-err", "after %d containers: %v", ci, cr.Err())
		}
		if ci != len(wants) {
			r.Violate("cram|container-count", "read %d containers, built %d", ci, len(wants))
		}
		if sk == 0 && whole.Len() != 0 {
			r.Violate("cram|consumed", "%d of %d bytes left unread", whole.Len(), total)
		}
	})
	if pv != nil {
		r.Violate("panic|cram-stream|"+core.TopLibFrame(st), "cram reader panicked on a spec-built stream: %v", pv)
		return
	}
	// Every proper prefix: the containers that are complete before the cut
	// are delivered, and unless the cut is at the end of a container the
	// reader reports a failure (fewer bytes were available than announced).
	if sk != 0 || f.Len() > 4000 {
		return
	}
	all := f.Bytes()
	for cut := 26; cut < len(all); cut++ {
		complete, atBound := 0, false
		for i, b := range bounds[1:] {
			if b <= cut {
				complete = i + 1
			}
			if b == cut {
				atBound = true
			}
		}
		if cut == 26 {
			atBound = true
		}
		var got int
		var rerr error
		pv, st := core.Recover(func() {
			cr, err := cram.NewReader(bytes.NewReader(all[:cut]))
			if err != nil {
				rerr = err
				return
			}
			for cr.Next() {
				ct := cr.Container()
				for ct.Next() {
					ct.Block().Value()
				}
				if ct.Err() != nil {
					rerr = ct.Err()
					return
				}
				got++
			}
			rerr = cr.Err()
		})
		if pv != nil {
			r.Violate("panic|cram-truncated|"+core.TopLibFrame(st), "cram reader panicked on a stream cut at %d of %d: %v", cut, len(all), pv)
			return
		}
		if got > complete+1 || (got > complete && rerr == nil) {
			r.Violate("cram|truncated|extra-container", "stream cut at %d of %d: %d containers delivered without error, %d are complete before the cut", cut, len(all), got, complete)
			return
		}
		if !atBound && rerr == nil {
			r.Violate("cram|truncated|clean-end", "stream cut at %d of %d (inside a container, boundaries %v): %d containers and then a clean end, Err() = nil", cut, len(all), bounds, got)
			return
		}
		r.Count("cram_truncations", 1)
	}
}

// iotest1 returns one byte per Read.
type iotest1 struct{ r io.Reader }

func (o iotest1) Read(p []byte) (int, error) {
	if len(p) == 0 {
		return 0, nil
	}
	return o.r.Read(p[:1])
}

func putCRC(dst, data []byte) { binary.LittleEndian.PutUint32(dst, crc32.ChecksumIEEE(data)) }
