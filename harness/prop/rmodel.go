package prop

import (
	"bytes"
	"fmt"
	"io"
	"math/rand"
	"time"

	"github.com/biogo/hts/bgzf"

	"verif/gen"
)

// rmodel is the flat reference model of a bgzf.Reader over a generated file:
// a logical position into the uncompressed data and the Blocked flag.
type rmodel struct {
	f       *gen.File
	p       int64
	blocked bool
	atEnd   bool // the reader has reported end of data since the last Seek
}

func (m *rmodel) total() int64 { return int64(len(m.f.Flat)) }

// curBlock is the index of the first non-empty block containing data at or
// after p, or -1 at the end of the data.
func (m *rmodel) curBlock() int {
	for i, b := range m.f.Blocks {
		if b.Len > 0 && b.Start+int64(b.Len) > m.p {
			return i
		}
	}
	return -1
}

// expectRead returns the bytes a Read(n) must return and whether it must
// report io.EOF; it advances the model.
func (m *rmodel) expectRead(n int) (want []byte, eof bool) {
	avail := m.total() - m.p
	if m.blocked {
		if bi := m.curBlock(); bi >= 0 {
			b := m.f.Blocks[bi]
			avail = b.Start + int64(b.Len) - m.p
		} else {
			avail = 0
		}
	}
	k := int64(n)
	if k > avail {
		k = avail
	}
	want = m.f.Flat[m.p : m.p+k]
	eof = k < int64(n)
	m.p += k
	return
}

// translate maps a virtual offset to a logical position. File must be the
// base of a block (Block <= its length) or, for isEnd, the size of the file.
func (m *rmodel) translate(o bgzf.Offset, isEnd bool) (int64, error) {
	if i := m.f.BlockAt(o.File); i >= 0 {
		b := m.f.Blocks[i]
		if int(o.Block) > b.Len {
			return 0, fmt.Errorf("offset %d:%d is beyond the %d bytes of that block", o.File, o.Block, b.Len)
		}
		return b.Start + int64(o.Block), nil
	}
	if isEnd && o.File == int64(len(m.f.Bytes)) && o.Block == 0 {
		return m.total(), nil
	}
	return 0, fmt.Errorf("offset %d:%d does not name a block of the file", o.File, o.Block)
}

// rop is one reader operation of a history.
type rop struct {
	Kind byte // S seek, R read, B readbyte, T toggle Blocked, P replay last chunk, Z sleep, C set cache
	Blk  int
	Off  int
	N    int
	Aux  int
	Cls  string
}

func (o rop) String() string {
	switch o.Kind {
	case 'S':
		return fmt.Sprintf("Seek(blk%d+%d/%s)", o.Blk, o.Off, o.Cls)
	case 'R':
		return fmt.Sprintf("Read(%d)", o.N)
	case 'B':
		return "ReadByte"
	case 'T':
		return "ToggleBlocked"
	case 'P':
		return fmt.Sprintf("Replay(%d)", o.N)
	case 'Z':
		return fmt.Sprintf("Sleep(%dus)", o.N)
	case 'C':
		if o.Aux == -1 {
			return "SetCache(nil: suspend)"
		}
		if o.Aux == -2 {
			return "SetCache(re-attach the suspended cache)"
		}
		return fmt.Sprintf("SetCache(kind%d,cap%d)", o.Aux, o.N)
	}
	return "?"
}

// histOpts steer the history generator.
type histOpts struct {
	caches    bool // emit SetCache ops
	revisit   bool // bias seeks to recently visited blocks (cache pressure)
	noBlocked bool
	smallN    bool
}

// nextOp draws the next operation given the model state.
func nextOp(rng *rand.Rand, m *rmodel, o histOpts, recent []int) rop {
	f := m.f
	if o.caches && rng.Intn(9) == 0 {
		// cache histories change the cache often: fresh, detached, re-attached
		return rop{Kind: 'C', Aux: rng.Intn(8), N: 1 + rng.Intn(6)}
	}
	x := rng.Intn(100)
	switch {
	case x < 30:
		// Seek, by class.
		cur := m.curBlock()
		if cur < 0 {
			cur = len(f.Blocks) - 1
		}
		var bi int
		cls := ""
		cl := rng.Intn(9)
		if o.revisit && len(recent) > 0 && rng.Intn(2) == 0 {
			cl = 8
		}
		switch cl {
		case 0:
			bi, cls = cur, "current"
		case 1:
			bi, cls = cur+1, "next"
		case 2:
			bi, cls = cur-1, "previous"
		case 3:
			bi, cls = len(f.Blocks)-1, "last"
			for bi > 0 && f.Blocks[bi].Len == 0 {
				bi--
			}
		case 4:
			bi, cls = len(f.Blocks)-1, "final-member"
		case 5:
			cls = "empty"
			bi = -1
			st := rng.Intn(len(f.Blocks))
			for k := 0; k < len(f.Blocks); k++ {
				if f.Blocks[(st+k)%len(f.Blocks)].Len == 0 {
					bi = (st + k) % len(f.Blocks)
					break
				}
			}
			if bi < 0 {
				bi, cls = rng.Intn(len(f.Blocks)), "random"
			}
		case 8:
			if len(recent) > 0 {
				bi, cls = recent[rng.Intn(len(recent))], "revisit"
			} else {
				bi, cls = rng.Intn(len(f.Blocks)), "random"
			}
		default:
			bi, cls = rng.Intn(len(f.Blocks)), "random"
		}
		if bi < 0 {
			bi = 0
		}
		if bi >= len(f.Blocks) {
			bi = len(f.Blocks) - 1
		}
		b := f.Blocks[bi]
		off := 0
		switch rng.Intn(5) {
		case 0:
			off = b.Len // (base,len): same logical position as the next block's start
			cls += "+len"
		case 1:
			if b.Len > 0 {
				off = b.Len - 1
			}
		case 2:
			if b.Len > 0 {
				off = rng.Intn(b.Len + 1)
			}
		}
		if m.atEnd {
			cls += "+aftereof"
		}
		return rop{Kind: 'S', Blk: bi, Off: off, Cls: cls}
	case x < 70:
		var n int
		if o.smallN {
			n = []int{0, 1, 2, 7, 100, 3000}[rng.Intn(6)]
		} else {
			n = []int{0, 1, 2, 7, 100, 4096, 20000, gen.BlockSize, gen.BlockSize + 1, 131072}[rng.Intn(10)]
		}
		return rop{Kind: 'R', N: n}
	case x < 80:
		return rop{Kind: 'B'}
	case x < 86:
		if o.noBlocked {
			return rop{Kind: 'B'}
		}
		return rop{Kind: 'T'}
	case x < 93:
		return rop{Kind: 'P', N: []int{1, 7, 100, 5000}[rng.Intn(4)]}
	case x < 97 || !o.caches:
		return rop{Kind: 'Z', N: rng.Intn(2000)}
	default:
		return rop{Kind: 'C', Aux: rng.Intn(8), N: 1 + rng.Intn(6)}
	}
}

// stepResult is what one reader did for one op.
type stepResult struct {
	data  []byte
	eof   bool
	err   error
	chunk bgzf.Chunk
}

// applyOp performs op on a real reader. For 'P' the caller has already
// turned it into a Seek + Read.
func applyOp(r *bgzf.Reader, f *gen.File, o rop) stepResult {
	var s stepResult
	switch o.Kind {
	case 'S':
		b := f.Blocks[o.Blk]
		s.err = r.Seek(bgzf.Offset{File: b.Base, Block: uint16(o.Off)})
	case 'R':
		buf := make([]byte, o.N)
		n, err := r.Read(buf)
		if n < 0 || n > len(buf) {
			s.err = fmt.Errorf("Read(%d) returned n=%d", o.N, n)
			return s
		}
		s.data = buf[:n]
		if err == io.EOF {
			s.eof = true
		} else {
			s.err = err
		}
	case 'B':
		b, err := r.ReadByte()
		if err == nil {
			s.data = []byte{b}
		} else if err == io.EOF {
			s.eof = true
		} else {
			s.err = err
		}
	case 'T':
		r.Blocked = !r.Blocked
	case 'Z':
		time.Sleep(time.Duration(o.N) * time.Microsecond)
	}
	s.chunk = r.LastChunk()
	return s
}

// checkStep compares a read step with the model's expectation; returns a
// violation class and text, or "".
func checkStep(m *rmodel, o rop, before int64, want []byte, wantEOF bool, s stepResult) (string, string) {
	if s.err != nil {
		return "error", fmt.Sprintf("%v returned the error %v at logical position %d", o, s.err, before)
	}
	if !bytes.Equal(s.data, want) {
		i := 0
		for i < len(s.data) && i < len(want) && s.data[i] == want[i] {
			i++
		}
		return "wrong-bytes", fmt.Sprintf("%v at logical position %d (blocked=%v) returned %d bytes, the flat data gives %d; first difference at byte %d", o, before, m.blocked, len(s.data), len(want), i)
	}
	if o.Kind == 'R' && o.N == 0 {
		// Read(0) may return (0,nil) or, at the end of the data, (0,EOF).
		if s.eof && before != m.total() {
			return "early-eof", fmt.Sprintf("Read(0) reported io.EOF at logical position %d of %d", before, m.total())
		}
		if s.eof {
			return "", ""
		}
		// a successful read of no bytes: LastChunk is the empty interval at
		// the current position (checked below)
	} else if s.eof != wantEOF {
		if s.eof {
			return "early-eof", fmt.Sprintf("%v at logical position %d (blocked=%v) reported io.EOF after %d bytes; %d were requested and available", o, before, m.blocked, len(s.data), len(want))
		}
		return "missing-eof", fmt.Sprintf("%v at logical position %d (blocked=%v) returned %d of %d bytes with a nil error", o, before, m.blocked, len(s.data), o.N)
	}
	if len(s.data) > 0 || !s.eof {
		pb, err := m.translate(s.chunk.Begin, false)
		if err != nil {
			return "lastchunk-begin", fmt.Sprintf("after %v at logical position %d: LastChunk().Begin: %v", o, before, err)
		}
		pe, err := m.translate(s.chunk.End, true)
		if err != nil {
			return "lastchunk-end", fmt.Sprintf("after %v at logical position %d: LastChunk().End: %v", o, before, err)
		}
		if pb != before || pe != before+int64(len(s.data)) {
			return "lastchunk-position", fmt.Sprintf("after %v: LastChunk %v translates to [%d,%d), the bytes returned are [%d,%d)", o, s.chunk, pb, pe, before, before+int64(len(s.data)))
		}
	}
	return "", ""
}
