package prop

import (
	"bytes"
	"fmt"
	"io"
	"math/rand"
	"sort"
	"strings"

	"github.com/biogo/hts/bam"
	"github.com/biogo/hts/sam"

	"verif/core"
	"verif/gen"
	"verif/mon"
	"verif/oracle"
)

func init() {
	core.Register(&core.Prop{
		ID:    "C18",
		Level: "exploration",
		Rule: "a case is k in 1..5 BAM inputs (some empty), each written with the real bam.Writer and sorted in the common declared order: coordinate (by index in the input's own header then position, unplaced last), queryname, unsorted (concatenation), unknown with a custom less (by MAPQ) and unknown with nil less; reference lists equal / disjoint / overlapping, always consistent with the merged header order, with names chosen so that name order differs from header order (chr2 before chr10); mates on other references; unplaced records; unique names carrying (input, ordinal); optionally one input whose underlying reader fails where record n starts (one record per BGZF member). " +
			"Oracle over the sequence of (record, error): returned records are exactly the input records (by SAM line with reference names), each once; sorted by the declared order where coordinate means (index in Merger.Header().Refs(), position); same-input order preserved; io.EOF only after all inputs ended cleanly, a failing input's error is returned before any io.EOF; Ref and MateRef of every record are the merged header's own references with the source names. Children isolate process-fatal failures. " +
			"Non-trivial: >= 2 non-empty inputs and >= 3 records; distinct = distinct cases.",
		Floor:       map[string]int{"quick": 150, "thorough": 3000},
		Plan:        c18Plan,
		Run:         c18Run,
		Assumptions: []string{"inputs are sorted in their common declared order and their reference lists are consistent with the merged header's order (otherwise no sorted merge exists)"},
		TimeoutS:    map[string]int{"quick": 900, "thorough": 3400},
	})
}

func c18Plan(seed int64, tier string) []core.Case {
	n := 320
	if tier == "thorough" {
		n = 6000
	}
	var cs []core.Case
	for i := 0; i < n; i++ {
		cs = append(cs, core.Case{Kind: "merge", Seed: core.SubSeed(seed, "c18", i), P: map[string]int64{"order": int64(i % 5), "fail": int64(i % 7 / 6)}})
	}
	return cs
}

type c18Input struct {
	refs  []oracle.RefSpec
	recs  []oracle.Rec
	lines []string
	bytes []byte
	offs  []int64 // compressed offset of the member holding record i
	raw   []byte  // the uncompressed stream
	cuts  []int   // cuts[j]: offset of record j in raw
}

// failAt fails every read at or beyond a byte offset.
type failAt struct {
	r   *bytes.Reader
	at  int64
	hit bool
}

func (f *failAt) Read(p []byte) (int, error) {
	pos, _ := f.r.Seek(0, io.SeekCurrent)
	if f.at >= 0 && pos+int64(len(p)) > f.at {
		n := f.at - pos
		if n <= 0 {
			f.hit = true
			return 0, mon.ErrInjected
		}
		p = p[:n]
	}
	return f.r.Read(p)
}

func c18Run(c core.Case) *core.Result {
	r := core.NewResult()
	rng := c.Rng()
	order := c.Int("order") // 0 coordinate 1 queryname 2 unsorted 3 unknown+less 4 unknown nil
	orderName := []string{"coordinate", "queryname", "unsorted", "unknown+less(MAPQ)", "unknown+nil"}[order]
	k := 1 + rng.Intn(5)
	// master reference list: name order differs from list order
	master := []oracle.RefSpec{{"chr2", 5000000}, {"chr10", 4000000}, {"chr1", 9000000}, {"chrX", 3000000}, {"alt_b", 100000}, {"alt_a", 100000}}
	layout := rng.Intn(3) // 0 equal, 1 disjoint, 2 overlapping prefixes / shifted windows
	var ins []*c18Input
	var merged []string
	seenM := map[string]bool{}
	for i := 0; i < k; i++ {
		var refs []oracle.RefSpec
		switch layout {
		case 0:
			refs = master[:4]
		case 1:
			lo := (i * 2) % len(master)
			hi := lo + 1 + rng.Intn(2)
			if hi > len(master) {
				hi = len(master)
			}
			refs = master[lo:hi]
		default:
			lo := 0
			if i > 0 {
				lo = rng.Intn(3)
			}
			refs = master[lo : lo+2+rng.Intn(len(master)-lo-1)]
		}
		ins = append(ins, &c18Input{refs: append([]oracle.RefSpec(nil), refs...)})
		for _, rf := range refs {
			if !seenM[rf.Name] {
				seenM[rf.Name] = true
				merged = append(merged, rf.Name)
			}
		}
	}
	// the inputs' own order must agree with the merged order
	mIdx := map[string]int{}
	for i, n := range merged {
		mIdx[n] = i
	}
	for _, in := range ins {
		for j := 1; j < len(in.refs); j++ {
			if mIdx[in.refs[j-1].Name] > mIdx[in.refs[j].Name] {
				// inconsistent layout: fall back to equal lists
				for _, x := range ins {
					x.refs = master[:4]
				}
				merged = []string{"chr2", "chr10", "chr1", "chrX"}
				mIdx = map[string]int{"chr2": 0, "chr10": 1, "chr1": 2, "chrX": 3}
			}
		}
	}
	sqExtra, sqSeen := map[string]string{}, map[string]bool{}
	if rng.Intn(2) == 0 {
		for _, m := range master {
			if rng.Intn(3) == 0 {
				sqExtra[m.Name] = []string{"TP:linear", "AN:alias1", "DS:description"}[rng.Intn(3)]
			}
		}
		r.Count("cases_with_sq_fields_in_some_inputs", 1)
	}
	failInput, failRec := -1, -1
	// corrupt: instead of an I/O fault the failing input holds a record the
	// reader refuses (read name length 0) and can read on after; whatever the
	// order, the merge must not end in a clean io.EOF after that.
	corrupt := c.Int("fail") == 1 && rng.Intn(2) == 0
	total, nonEmpty := 0, 0
	for i, in := range ins {
		n := rng.Intn(9)
		if rng.Intn(5) == 0 {
			n = 0
		}
		for j := 0; j < n; j++ {
			rec := gen.RandRec(rng, gen.RecOpts{NRefs: len(in.refs), SAMSafe: true, NoBigCig: true, MaxSeq: 40}, j)
			rec.Name = fmt.Sprintf("in%d_%c%c_%d", i, 'a'+rune(rng.Intn(26)), 'a'+rune(rng.Intn(26)), j)
			rec.Pos = int32(rng.Intn(2000))
			if rng.Intn(4) == 0 && rec.RefID >= 0 {
				rec.Pos = int32(100 * rng.Intn(5)) // ties across inputs
			}
			if rec.RefID < 0 {
				rec.Pos = -1
			} else if rng.Intn(12) == 0 {
				rec.Pos = -1 // on a reference but without a position: first of its reference
			}
			in.recs = append(in.recs, rec)
		}
		switch order {
		case 0:
			sort.SliceStable(in.recs, func(a, b int) bool {
				x, y := in.recs[a], in.recs[b]
				if (x.RefID < 0) != (y.RefID < 0) {
					return y.RefID < 0
				}
				if x.RefID != y.RefID {
					return x.RefID < y.RefID
				}
				return x.Pos < y.Pos
			})
		case 1:
			sort.SliceStable(in.recs, func(a, b int) bool { return in.recs[a].Name < in.recs[b].Name })
		case 3:
			sort.SliceStable(in.recs, func(a, b int) bool { return in.recs[a].MapQ < in.recs[b].MapQ })
		}
		h := mkHeader(rng, in.refs, false)
		h.Version = "1.6"
		// Some references carry an extra @SQ field in the first input that
		// has them and, at random, not in later ones: the merged header then
		// replaces its reference by the later, bare one (which inherits the
		// field), and every link handed out must follow.
		for _, ref := range h.Refs() {
			if v, ok := sqExtra[ref.Name()]; ok && (!sqSeen[ref.Name()] || rng.Intn(2) == 0) {
				ref.Set(sam.NewTag(v[:2]), v[3:])
			}
			sqSeen[ref.Name()] = true
		}
		switch order {
		case 0:
			h.SortOrder = sam.Coordinate
		case 1:
			h.SortOrder = sam.QueryName
		case 2:
			h.SortOrder = sam.Unsorted
		default:
			h.SortOrder = sam.UnknownOrder
		}
		name := refNamer(in.refs)
		text, _ := h.MarshalText()
		raw := oracle.EncodeBAMHeader(text, in.refs)
		cuts := []int{len(raw)}
		for _, rec := range in.recs {
			in.lines = append(in.lines, oracle.FormatSAM(rec, name, 0))
			raw = append(raw, oracle.EncodeBAMRecord(rec, true)...)
			cuts = append(cuts, len(raw))
		}
		f := gen.FileFromData(rng, raw, cuts[:len(cuts)-1], 0, true)
		in.bytes = f.Bytes
		in.raw, in.cuts = raw, cuts
		for j := range in.recs {
			b, _ := f.VOffset(int64(cuts[j]))
			in.offs = append(in.offs, b)
		}
		total += n
		if n > 0 {
			nonEmpty++
		}
	}
	if c.Int("fail") == 1 {
		failInput = rng.Intn(k)
		if n := len(ins[failInput].recs); n > 0 {
			failRec = rng.Intn(n)
		} else {
			failInput = -1
		}
	}
	if failInput < 0 {
		corrupt = false
	}
	if corrupt {
		in := ins[failInput]
		raw := append([]byte(nil), in.raw...)
		raw[in.cuts[failRec]+12] = 0 // l_read_name = 0: "invalid read name length"
		in.bytes = gen.FileFromData(rand.New(rand.NewSource(c.Seed)), raw, in.cuts[:len(in.cuts)-1], 0, true).Bytes
	}
	cfg := fmt.Sprintf("order=%s inputs=%d layout=%d records=%v fail=input %d at record %d corrupt-record=%v", orderName, k, layout, func() []int {
		var v []int
		for _, in := range ins {
			v = append(v, len(in.recs))
		}
		return v
	}(), failInput, failRec, corrupt)
	r.FP = core.Hash(cfg, c.Seed)
	r.Nontrivial = nonEmpty >= 2 && total >= 3
	r.Sample = map[string]any{"config": cfg, "merged_reference_order": merged}

	var readers []*bam.Reader
	var fa *failAt
	for i, in := range ins {
		var src io.Reader = bytes.NewReader(in.bytes)
		if i == failInput && !corrupt {
			fa = &failAt{r: bytes.NewReader(in.bytes), at: in.offs[failRec]}
			src = fa
		}
		rd := 1
		if i != failInput && c.Seed%3 == 0 {
			rd = 2 // read-ahead on the clean inputs (the failing one must fail exactly at record n)
		}
		br, err := bam.NewReader(src, rd)
		if err != nil {
			r.Violate("harness|input", "%s: cannot open input %d: %v", cfg, i, err)
			return r
		}
		defer br.Close()
		readers = append(readers, br)
	}
	var less func(a, b *sam.Record) bool
	if order == 3 {
		less = func(a, b *sam.Record) bool { return a.MapQ < b.MapQ }
	} else if order < 3 && rng.Intn(2) == 0 {
		// a less that contradicts the declared order; the documentation says
		// it is ignored for every declared order other than unknown
		less = func(a, b *sam.Record) bool { return a.MapQ > b.MapQ || (a.MapQ == b.MapQ && a.Name > b.Name) }
		r.Count("declared_order_with_decoy_less", 1)
	}
	var m *bam.Merger
	var err error
	pv, st := core.Recover(func() { m, err = bam.NewMerger(less, readers...) })
	if pv != nil {
		cls := "other"
		if failInput >= 0 && failRec == 0 {
			cls = "failing-first-record"
		}
		for _, in := range ins {
			if len(in.recs) == 0 && cls == "other" {
				cls = "empty-input"
			}
		}
		r.Violate("panic|NewMerger|"+cls+"|"+core.TopLibFrame(st), "%s: NewMerger panicked: %v", cfg, pv)
		return r
	}
	if err != nil {
		if failInput >= 0 && failRec == 0 && err != io.EOF {
			return r // the failure was reported by the constructor
		}
		r.Violate("merger|new", "%s: NewMerger: %v", cfg, err)
		return r
	}
	mh := m.Header()
	var mnames []string
	for _, rf := range mh.Refs() {
		mnames = append(mnames, rf.Name())
	}
	if strings.Join(mnames, ",") != strings.Join(merged, ",") && k > 1 {
		r.Violate("merger|header-order", "%s: merged header references %v, expected %v", cfg, mnames, merged)
		return r
	}
	lineOf := map[string]string{}
	inputOf := map[string]int{}
	ordOf := map[string]int{}
	for i, in := range ins {
		for j, rec := range in.recs {
			lineOf[rec.Name] = in.lines[j]
			inputOf[rec.Name] = i
			ordOf[rec.Name] = j
		}
	}
	seen := map[string]bool{}
	lastOrd := map[int]int{}
	var prev *sam.Record
	var out []string
	count := 0
	var finalErr error
	pv, st = core.Recover(func() {
		for step := 0; step < total+5; step++ {
			rec, err := m.Read()
			if err != nil {
				finalErr = err
				if err != io.EOF {
					// an input failed: however often the caller reads on, the
					// merge must not end in a clean io.EOF
					for again := 0; again < total+3; again++ {
						if _, err2 := m.Read(); err2 == io.EOF {
							r.Violate("eof-after-error", "%s: Read returned %v after %d records; reading on, the merger later returned io.EOF as if every input had ended cleanly", cfg, err, count)
							return
						}
					}
				}
				return
			}
			if rec == nil {
				r.Violate("merger|nil-record", "%s: Read returned (nil, nil)", cfg)
				return
			}
			count++
			out = append(out, rec.Name)
			want, ok := lineOf[rec.Name]
			if !ok {
				r.Violate("merger|foreign-record", "%s: returned record %q is not an input record", cfg, rec.Name)
				return
			}
			if seen[rec.Name] {
				r.Violate("merger|duplicate", "%s: record %q returned twice", cfg, rec.Name)
				return
			}
			seen[rec.Name] = true
			chk := func(label string, ref *sam.Reference) bool {
				if ref == nil {
					return true
				}
				id := ref.ID()
				if id < 0 || id >= len(mh.Refs()) || mh.Refs()[id] != ref {
					r.Violate("relink|"+label, "%s: record %q: %s %q (id %d) is not a reference of the merged header", cfg, rec.Name, label, ref.Name(), id)
					return false
				}
				return true
			}
			if !chk("Ref", rec.Ref) || !chk("MateRef", rec.MateRef) {
				return
			}
			line, lerr := rec.MarshalSAM(0)
			if lerr != nil || !eqFoldHex(string(line), want) {
				r.Violate("merger|record-changed", "%s: record %q formats to\n%.400s\nsource\n%.400s", cfg, rec.Name, line, want)
				return
			}
			in := inputOf[rec.Name]
			if lo, ok := lastOrd[in]; ok && ordOf[rec.Name] < lo {
				r.Violate("order|same-input", "%s: records of input %d returned out of their relative order (%v)", cfg, in, out)
				return
			}
			lastOrd[in] = ordOf[rec.Name]
			if prev != nil {
				bad := false
				switch order {
				case 0:
					ka, kb := c18Key(prev), c18Key(rec)
					bad = kb[0] < ka[0] || (kb[0] == ka[0] && kb[1] < ka[1])
				case 1:
					bad = rec.Name < prev.Name
				case 3:
					bad = rec.MapQ < prev.MapQ
				default:
					pi, ci := inputOf[prev.Name], inputOf[rec.Name]
					bad = ci < pi
				}
				if bad {
					r.Violate("order|"+orderName, "%s: output not sorted: %q (ref %s pos %d mapq %d) came after %q (ref %s pos %d mapq %d)\nmerged reference order %v", cfg, rec.Name, rec.Ref.Name(), rec.Pos, rec.MapQ, prev.Name, prev.Ref.Name(), prev.Pos, prev.MapQ, mnames)
					return
				}
			}
			prev = rec
		}
		finalErr = fmt.Errorf("no end after %d reads", total+5)
	})
	if pv != nil {
		r.Violate("panic|Merger.Read|"+core.TopLibFrame(st), "%s: Read panicked: %v", cfg, pv)
		return r
	}
	if len(r.Viol) > 0 {
		return r
	}
	r.Count("records_merged", int64(count))
	if failInput >= 0 && (fa != nil || corrupt) {
		r.Count("failing_input_cases", 1)
		if corrupt {
			r.Count("failing_input_cases_corrupt_record", 1)
		}
		if finalErr == io.EOF {
			r.Violate("error-dropped", "%s: input %d fails at record %d but the merger ended with io.EOF after %d records (the failure was never reported)", cfg, failInput, failRec, count)
		}
		return r
	}
	if finalErr != io.EOF {
		r.Violate("merger|error", "%s: Read ended with %v after %d of %d records", cfg, finalErr, count, total)
		return r
	}
	if count != total {
		var missing []string
		for n := range lineOf {
			if !seen[n] {
				missing = append(missing, n)
			}
		}
		sort.Strings(missing)
		r.Violate("merger|lost-records", "%s: io.EOF after %d of %d records; missing %v", cfg, count, total, missing)
	}
	return r
}

func c18Key(rec *sam.Record) [2]int {
	if rec.Ref == nil {
		return [2]int{1 << 30, rec.Pos}
	}
	return [2]int{rec.Ref.ID(), rec.Pos}
}

var _ = rand.Int
