package prop

import (
	"fmt"
	"math/rand"
	"runtime"
	"sort"
	"strings"
	"sync"
	"sync/atomic"
	"time"

	"github.com/anishathalye/porcupine"

	"github.com/biogo/hts/bgzf"
	"github.com/biogo/hts/bgzf/cache"

	"verif/core"
)

func init() {
	core.Register(&core.Prop{
		ID:    "C14",
		Level: "exploration",
		Rule: "sequential cases: EVERY operation sequence of length <= L (quick 4, thorough 5) over the 24-operation alphabet {Put(used|unused, base in {0,1,2}), Get(k), Peek(k), Len/Cap, Resize(0..3), Drop(0..2), Free(0..3)} on LRU, FIFO and Random of capacity 1..3, bare and inside StatsRecorder, plus random histories of length 60 with bases {0..5}; the harness owns blocks as the reader does (blocks handed back by Put are overwritten with another member before being offered again; blocks the model says the cache holds are never touched; blocks from Get are Put back as they are). " +
			"Oracle: a policy-level reference model updated from the returned values: Len<=Cap, refusal of unused blocks when full, victim is an unused block if one is held else (LRU/FIFO) the earliest Put, Peek/Len/Cap consistent with Get, Get/Peek never yield a block of another base, Resize/Drop/Free post-conditions, StatsRecorder counters equal the counts of returned values; every call returns (runtime deadlock detector). " +
			"concurrent cases: 2..4 goroutines x 30..60 operations on one cache, every operation recorded at the client boundary with call/return stamps from one atomic counter, checked for linearizability with porcupine against the same model (nondeterministic for Resize/Drop victims); the same workload under the race detector. " +
			"distinct_nontrivial counts distinct sequential histories that contain >= 1 Put and >= 1 other operation, and distinct concurrent histories with >= 2 overlapping operations.",
		Floor:       map[string]int{"quick": 100000, "thorough": 1000000},
		Plan:        c14Plan,
		Run:         c14Run,
		Exhaustive:  true,
		ExhaustNote: "sequential histories up to the stated length are enumerated completely; random and concurrent histories are samples",
		Assumptions: []string{"in concurrent histories blocks are immutable (no recycling), recycling is covered by the sequential cases"},
		TimeoutS:    map[string]int{"quick": 900, "thorough": 3400},
	})
}

func c14Plan(seed int64, tier string) []core.Case {
	L := int64(4)
	nrand, nconc := 32, 320
	if tier == "thorough" {
		L = 5
		nrand, nconc = 256, 5000
	}
	var cs []core.Case
	for kind := int64(0); kind < 3; kind++ {
		for capn := int64(1); capn <= 3; capn++ {
			for stats := int64(0); stats < 2; stats++ {
				if true {
					for first := int64(0); first < 24; first++ {
						cs = append(cs, core.Case{Kind: "seq-enum", P: map[string]int64{"kind": kind, "cap": capn, "stats": stats, "L": L, "first": first}})
					}
				} else {
					cs = append(cs, core.Case{Kind: "seq-enum", P: map[string]int64{"kind": kind, "cap": capn, "stats": stats, "L": L, "first": -1}})
				}
			}
		}
	}
	for i := 0; i < nrand; i++ {
		cs = append(cs, core.Case{Kind: "seq-random", Seed: core.SubSeed(seed, "c14r", i), P: map[string]int64{"n": 600}})
	}
	for i := 0; i < nconc; i++ {
		s := core.SubSeed(seed, "c14c", i)
		rng := core.Case{Seed: s}.Rng()
		c := core.Case{Kind: "concurrent", Seed: s, P: map[string]int64{
			"kind": int64(rng.Intn(3)), "cap": int64(1 + rng.Intn(3)), "stats": int64(rng.Intn(2)),
			"g": int64(2 + rng.Intn(3)), "ops": int64(30 + rng.Intn(31)), "procs": []int64{0, 0, 2, 16}[rng.Intn(4)],
		}}
		c.Race = i%4 == 0
		cs = append(cs, c)
	}
	// capacity: caches of thousands of slots hold as many blocks as they say
	for kind := int64(0); kind < 3; kind++ {
		for _, n := range []int64{1024, 1025, 1500, 5000} {
			cs = append(cs, core.Case{Kind: "capacity", P: map[string]int64{"kind": kind, "cap": n}})
		}
	}
	// stress: long concurrent runs without a linearizability check (too long
	// for the checker); decided by the race detector and by the per-operation
	// assertions (Get/Peek never name a block of another base).
	nstress := 9
	if tier == "thorough" {
		nstress = 120
	}
	for i := 0; i < nstress; i++ {
		s := core.SubSeed(seed, "c14s", i)
		rng := core.Case{Seed: s}.Rng()
		cs = append(cs, core.Case{Kind: "concurrent", Seed: s, Race: true, P: map[string]int64{
			"kind": int64(i % 3), "cap": int64(1 + rng.Intn(3)), "stats": int64(rng.Intn(2)),
			"g": 4, "ops": 1500, "procs": []int64{0, 4, 16}[rng.Intn(3)], "stress": 1,
		}})
	}
	return cs
}

var cacheKinds = []string{"LRU", "FIFO", "Random"}

func c14New(kind, capn int, stats bool) (cache.Cache, *cache.StatsRecorder) {
	var c cache.Cache
	switch kind {
	case 0:
		c = cache.NewLRU(capn)
	case 1:
		c = cache.NewFIFO(capn)
	default:
		c = cache.NewRandom(capn)
	}
	if stats {
		sr := &cache.StatsRecorder{Cache: c}
		return statsCache{sr, c}, sr
	}
	return c, nil
}

// statsCache routes Get/Put through the recorder and the rest to the cache.
type statsCache struct {
	sr *cache.StatsRecorder
	c  cache.Cache
}

func (s statsCache) Get(b int64) bgzf.Block              { return s.sr.Get(b) }
func (s statsCache) Put(b bgzf.Block) (bgzf.Block, bool) { return s.sr.Put(b) }
func (s statsCache) Peek(b int64) (bool, int64)          { return s.sr.Peek(b) }
func (s statsCache) Len() int                            { return s.c.Len() }
func (s statsCache) Cap() int                            { return s.c.Cap() }
func (s statsCache) Resize(n int)                        { s.c.Resize(n) }
func (s statsCache) Drop(n int)                          { s.c.Drop(n) }

// ---- the policy-level model ----

type cent struct {
	id   int
	base int64
	used bool
	seq  int
}

type cmodel struct {
	kind int
	cap  int
	held []cent
	seq  int
}

func (m *cmodel) find(base int64) int {
	for i, e := range m.held {
		if e.base == base {
			return i
		}
	}
	return -1
}

func (m *cmodel) findID(id int) int {
	for i, e := range m.held {
		if e.id == id {
			return i
		}
	}
	return -1
}

func (m *cmodel) remove(i int) { m.held = append(m.held[:i:i], m.held[i+1:]...) }

func (m *cmodel) clone() *cmodel {
	c := *m
	c.held = append([]cent(nil), m.held...)
	return &c
}

func (m *cmodel) key() string {
	h := append([]cent(nil), m.held...)
	if m.kind == 2 {
		sort.Slice(h, func(i, j int) bool { return h[i].id < h[j].id })
	}
	return fmt.Sprint(m.cap, h)
}

// legalVictim reports whether evicting entry i is allowed by the policy.
func (m *cmodel) legalVictim(i int) bool {
	anyUnused := false
	for _, e := range m.held {
		if !e.used {
			anyUnused = true
		}
	}
	if anyUnused {
		return !m.held[i].used
	}
	if m.kind == 2 {
		return true
	}
	for _, e := range m.held {
		if e.seq < m.held[i].seq {
			return false
		}
	}
	return true
}

// nextFor encodes the block id in the member size so that Peek identifies the block.
func nextFor(base int64, id int) int64 { return base + 1 + int64(id%60000) }

// ---- sequential driver ----

type sblock struct {
	b      bgzf.Block
	id     int
	base   int64
	used   bool
	loans  int  // outstanding references obtained from Get
	inFree bool // on the harness's free list
}

type seqDriver struct {
	r      *core.Result
	cfg    string
	c      cache.Cache
	sr     *cache.StatsRecorder
	m      *cmodel
	free   []*sblock // owned by the harness, may be rebased
	loan   []*sblock // obtained from Get, may be Put back unchanged
	all    map[bgzf.Block]*sblock
	nextID int
	hist   []hrec
	st     cache.Stats
	failed bool
}

func newSeqDriver(r *core.Result, kind, capn int, stats bool) *seqDriver {
	c, sr := c14New(kind, capn, stats)
	cfg := cacheKinds[kind] + "(" + string(rune('0'+capn)) + ")"
	if stats {
		cfg += " in StatsRecorder"
	}
	return &seqDriver{r: r, cfg: cfg, c: c, sr: sr, m: &cmodel{kind: kind, cap: capn}, all: map[bgzf.Block]*sblock{}}
}

// hrec is one history entry, formatted only when a violation is reported.
type hrec struct {
	f string
	a [5]int64
}

func (h hrec) String() string {
	n := strings.Count(h.f, "%")
	args := make([]any, n)
	for i := range args {
		args[i] = h.a[i]
	}
	return fmt.Sprintf(h.f, args...)
}

func b2i(b bool) int64 {
	if b {
		return 1
	}
	return 0
}

func (d *seqDriver) log(f string, a ...int64) {
	var h hrec
	h.f = f
	copy(h.a[:], a)
	d.hist = append(d.hist, h)
}

func (d *seqDriver) bad(cls, format string, a ...any) {
	if d.failed {
		return
	}
	d.failed = true
	h := d.hist
	if len(h) > 40 {
		h = h[len(h)-40:]
	}
	d.r.Violate(cacheKinds[d.m.kind]+"|"+cls, "%s: %s\nhistory: %v\nmodel holds: %v", d.cfg, fmt.Sprintf(format, a...), h, d.m.held)
}

// physPool holds the blocks of finished sequential histories (their caches
// are garbage), to avoid allocating 64 KiB per block per history.
var physPool []bgzf.Block

// done returns every block of a finished history to the pool.
func (d *seqDriver) done() {
	for b := range d.all {
		physPool = append(physPool, b)
	}
}

// release makes sb recyclable if nobody else can reach it.
func (d *seqDriver) release(sb *sblock) {
	if sb.loans == 0 && !sb.inFree && d.m.findID(sb.id) < 0 {
		sb.inFree = true
		d.free = append(d.free, sb)
	}
}

func (d *seqDriver) own(b bgzf.Block) *sblock {
	if b == nil {
		return nil
	}
	return d.all[b]
}

// put offers a block with the given base and used flag, recycling a free block.
func (d *seqDriver) put(base int64, used bool, reuseLoan bool) {
	var sb *sblock
	if reuseLoan && len(d.loan) > 0 {
		sb = d.loan[len(d.loan)-1]
		d.loan = d.loan[:len(d.loan)-1]
		sb.loans--
		d.log("Put(loaned #%d base=%d used=%d)", int64(sb.id), sb.base, b2i(sb.used))
	} else {
		d.nextID++
		if n := len(d.free); n > 0 {
			sb = d.free[n-1]
			d.free = d.free[:n-1]
			sb.inFree = false
			sb.id, sb.base, sb.used = d.nextID, base, used
			bgzf.VerifRebase(sb.b, base, nextFor(base, sb.id), used, []byte{byte(sb.id)})
		} else {
			sb = &sblock{id: d.nextID, base: base, used: used}
			if n := len(physPool); n > 0 {
				// a 64 KiB block from an earlier, finished history
				sb.b = physPool[n-1]
				physPool = physPool[:n-1]
				bgzf.VerifRebase(sb.b, base, nextFor(base, sb.id), used, []byte{byte(sb.id)})
			} else {
				sb.b = bgzf.VerifNewBlock(base, nextFor(base, sb.id), used, []byte{byte(sb.id)})
			}
			d.all[sb.b] = sb
		}
		d.log("Put(#%d base=%d used=%d)", int64(sb.id), sb.base, b2i(sb.used))
	}
	ev, retained := d.c.Put(sb.b)
	d.st.Puts++
	if retained {
		d.st.Retains++
		if ev != nil {
			d.st.Evictions++
		}
	}
	m := d.m
	evs := d.own(ev)
	{
		evid := int64(-1)
		if evs != nil {
			evid = int64(evs.id)
		} else if ev != nil {
			evid = -2
		}
		d.log("  =(evicted #%d, retained %d)", evid, b2i(retained))
	}
	if ev != nil && evs == nil {
		d.bad("put-foreign", "Put returned a block that was never given to the cache")
		return
	}
	dup := m.find(sb.base)
	heldSelf := m.findID(sb.id) >= 0
	if !retained {
		switch {
		case ev == sb.b && heldSelf:
			d.bad("put-hands-back-held-block", "Put of #%d (base %d), which the cache still holds after lending it out with Get, returned the block for reuse: the caller will overwrite a block the cache files under base %d", sb.id, sb.base, sb.base)
			return
		case ev == sb.b:
			d.release(sb)
		case ev == nil && heldSelf:
			// still held by the cache (FIFO returns used blocks from Get without removing them)
		case ev == nil:
			// handed to nobody: the block is simply dropped
		default:
			d.bad("put-unretained-eviction", "Put returned (%s,false): a block other than the one offered came back although nothing was retained", blkName(evs, ev))
			return
		}
		if m.cap == 0 {
			return // nothing can be retained
		}
		if dup < 0 && len(m.held) < m.cap {
			d.bad("put-refused-with-room", "Put of #%d (base %d) was refused although the cache holds %d of %d blocks and none with that base", sb.id, sb.base, len(m.held), m.cap)
		} else if dup < 0 && sb.used {
			d.bad("put-refused-used", "Put of the used block #%d into a full cache was refused (only unused blocks may be refused)", sb.id)
		}
		return
	}
	// retained
	if m.cap == 0 {
		d.bad("put-retained-at-capacity-0", "Put of #%d was retained by a cache resized to capacity 0", sb.id)
		return
	}
	if heldSelf {
		d.bad("put-double-retain", "Put retained block #%d which the cache already held", sb.id)
		return
	}
	if dup >= 0 {
		if evs == nil || evs.id != m.held[dup].id {
			d.bad("put-duplicate-base", "Put retained #%d with base %d while #%d with the same base is held and was not evicted", sb.id, sb.base, m.held[dup].id)
			return
		}
		m.remove(dup)
	} else if len(m.held) >= m.cap {
		if !sb.used {
			d.bad("put-unused-into-full", "the unused block #%d was accepted into a full cache", sb.id)
			return
		}
		if evs == nil {
			d.bad("over-capacity", "Put retained #%d into a full cache (%d/%d) without evicting", sb.id, len(m.held), m.cap)
			return
		}
		vi := m.findID(evs.id)
		if vi < 0 {
			d.bad("evicted-not-held", "Put evicted #%d which the model does not hold", evs.id)
			return
		}
		if !m.legalVictim(vi) {
			d.bad("eviction-policy", "Put evicted #%d (used=%v, put order %d); the policy prefers an unused block, otherwise the earliest Put", evs.id, m.held[vi].used, m.held[vi].seq)
			return
		}
		m.remove(vi)
	} else if ev != nil {
		d.bad("evicted-with-room", "Put evicted %s although the cache held %d of %d blocks", blkName(evs, ev), len(m.held), m.cap)
		return
	}
	m.seq++
	m.held = append(m.held, cent{id: sb.id, base: sb.base, used: sb.used, seq: m.seq})
	if evs != nil {
		// the evicted block belongs to the harness again, unless it is out on loan
		d.release(evs)
	}
}

func blkName(s *sblock, b bgzf.Block) string {
	if b == nil {
		return "nil"
	}
	if s == nil {
		return "unknown-block"
	}
	return fmt.Sprintf("#%d", s.id)
}

func (d *seqDriver) get(base int64) {
	b := d.c.Get(base)
	d.st.Gets++
	if b == nil {
		d.st.Misses++
	}
	sb := d.own(b)
	{
		gid := int64(-1)
		if sb != nil {
			gid = int64(sb.id)
		} else if b != nil {
			gid = -2
		}
		d.log("Get(%d)=#%d", base, gid)
	}
	m := d.m
	i := m.find(base)
	if b != nil && b.Base() != base {
		d.bad("get-wrong-base", "Get(%d) returned a block whose Base() is %d", base, b.Base())
		return
	}
	if i < 0 {
		if b != nil {
			d.bad("get-phantom", "Get(%d) returned %s but no block with that base is held", base, blkName(sb, b))
		}
		return
	}
	if b == nil {
		d.bad("get-lost", "Get(%d) returned nil but #%d with that base is held (Peek/Len would disagree with Get)", base, m.held[i].id)
		return
	}
	if sb == nil || sb.id != m.held[i].id {
		d.bad("get-other-block", "Get(%d) returned %s, the model holds #%d for that base", base, blkName(sb, b), m.held[i].id)
		return
	}
	if m.kind == 1 && m.held[i].used {
		// FIFO keeps used blocks; the caller gets it on loan
	} else {
		m.remove(i)
	}
	d.loan = append(d.loan, sb)
	sb.loans++
	if len(d.loan) > 4 {
		// forget the oldest loan: if the cache does not hold it any more it is ours to recycle
		old := d.loan[0]
		d.loan = d.loan[1:]
		old.loans--
		d.release(old)
	}
}

func (d *seqDriver) peek(base int64) {
	ex, next := d.c.Peek(base)
	d.log("Peek(%d)=(%d,%d)", base, b2i(ex), next)
	i := d.m.find(base)
	if ex != (i >= 0) {
		d.bad("peek-inconsistent", "Peek(%d) = %v but the model (and Get) say held=%v", base, ex, i >= 0)
		return
	}
	if i >= 0 && next != nextFor(base, d.m.held[i].id) {
		d.bad("peek-wrong-block", "Peek(%d) reports next=%d; block #%d held for that base has next=%d (the cache maps the base to another member)", base, next, d.m.held[i].id, nextFor(base, d.m.held[i].id))
		return
	}
	if i < 0 && next != -1 {
		d.bad("peek-next", "Peek(%d) = (false,%d), want (false,-1)", base, next)
	}
}

func (d *seqDriver) lencap() {
	l, c := d.c.Len(), d.c.Cap()
	d.log("Len=%d Cap=%d", int64(l), int64(c))
	if l != len(d.m.held) {
		d.bad("len", "Len() = %d, the model holds %d blocks", l, len(d.m.held))
	}
	if c != d.m.cap {
		d.bad("cap", "Cap() = %d, want %d", c, d.m.cap)
	}
	if l > c {
		d.bad("over-capacity", "Len() %d > Cap() %d", l, c)
	}
}

// survivors re-synchronises the model after Resize/Drop/Free by asking Peek
// for every block the model held, checking the count and the unused-first rule.
func (d *seqDriver) survivors(what string, wantLen int) {
	m := d.m
	var keep []cent
	droppedUsed, keptUnused := false, false
	for _, e := range m.held {
		ex, next := d.c.Peek(e.base)
		if ex && next == nextFor(e.base, e.id) {
			keep = append(keep, e)
			if !e.used {
				keptUnused = true
			}
		} else {
			if ex {
				d.bad("peek-wrong-block", "after %s Peek(%d) names another block than #%d", what, e.base, e.id)
				return
			}
			if e.used {
				droppedUsed = true
			}
			// dropped blocks are garbage; the harness forgets them
		}
	}
	if len(keep) != wantLen {
		d.bad(strings.ToLower(what)+"-count", "after %s the cache holds %d of the %d blocks it held, expected %d", what, len(keep), len(m.held), wantLen)
		return
	}
	if droppedUsed && keptUnused {
		d.bad("drop-policy", "%s dropped a used block while an unused one survived", what)
		return
	}
	m.held = keep
	if l := d.c.Len(); l != len(keep) {
		d.bad("len", "after %s Len() = %d but %d blocks are reachable", what, l, len(keep))
	}
}

func min(a, b int) int {
	if a < b {
		return a
	}
	return b
}

func (d *seqDriver) resize(n int) {
	d.log("Resize(%d)", int64(n))
	d.c.Resize(n)
	d.m.cap = n
	if c := d.c.Cap(); c != n {
		d.bad("resize-cap", "after Resize(%d) Cap() = %d", n, c)
		return
	}
	d.survivors("Resize", min(len(d.m.held), n))
}

func (d *seqDriver) drop(n int) {
	d.log("Drop(%d)", int64(n))
	d.c.Drop(n)
	d.survivors("Drop", len(d.m.held)-min(n, len(d.m.held)))
}

func (d *seqDriver) freeN(n int) {
	ok := cache.Free(n, d.c)
	d.log("Free(%d)=%d", int64(n), b2i(ok))
	want := len(d.m.held)
	if room := d.m.cap - len(d.m.held); n > room {
		want = len(d.m.held) - min(n-room, len(d.m.held))
	}
	d.survivors("Free", want)
	slots := d.c.Cap() - d.c.Len()
	if ok != (slots >= n) {
		d.bad("free-result", "Free(%d) returned %v but Cap-Len = %d", n, ok, slots)
	}
	if n <= d.m.cap && !ok {
		d.bad("free-failed", "Free(%d) returned false on a cache of capacity %d", n, d.m.cap)
	}
}

func (d *seqDriver) checkStats() {
	if d.sr == nil || d.failed {
		return
	}
	if got := d.sr.Stats(); got != d.st {
		d.bad("stats", "StatsRecorder reports %+v, the calls returned %+v", got, d.st)
	}
}

// apply runs alphabet operation op (0..23).
func (d *seqDriver) apply(op int) {
	switch {
	case op < 6:
		d.put(int64(op%3), op/3 == 0, false)
	case op < 9:
		d.get(int64(op - 6))
	case op < 12:
		d.peek(int64(op - 9))
	case op == 12:
		d.lencap()
	case op == 13:
		d.resize(0) // a cache of capacity 0 retains nothing
	case op < 17:
		d.resize(op - 13)
	case op < 20:
		d.drop(op - 17)
	default:
		d.freeN(op - 20)
	}
}

func c14Run(c core.Case) *core.Result {
	r := core.NewResult()
	r.Nontrivial = true
	r.FP = core.Hash(c.Kind, c.Seed, c.P)
	switch c.Kind {
	case "seq-enum":
		kind, capn, stats, L := c.Int("kind"), c.Int("cap"), c.Int("stats") == 1, c.Int("L")
		var n, nt int64
		seq := make([]int, 0, L)
		var rec func()
		run := func() {
			d := newSeqDriver(r, kind, capn, stats)
			puts, others := 0, 0
			for _, op := range seq {
				d.apply(op)
				if op < 6 {
					puts++
				} else {
					others++
				}
				if d.failed {
					break
				}
			}
			d.lencap()
			d.checkStats()
			d.done()
			n++
			if puts > 0 && others > 0 {
				nt++
			}
		}
		rec = func() {
			if len(seq) > 0 {
				run()
			}
			if len(seq) == L || len(r.Viol) >= 6 {
				return
			}
			for op := 0; op < 24; op++ {
				seq = append(seq, op)
				rec()
				seq = seq[:len(seq)-1]
			}
		}
		if f := c.Int("first"); f >= 0 {
			seq = append(seq, f)
			rec()
		} else {
			rec()
		}
		r.Evals, r.DistinctNT = n, nt
		r.Count("sequential_histories", n)
		r.Sample = fmt.Sprintf("%s(%d) stats=%v: all %d operation sequences of length <= %d (first op %d)", cacheKinds[kind], capn, stats, n, L, c.Int("first"))
	case "capacity":
		c14Capacity(r, c)
	case "seq-random":
		rng := c.Rng()
		n := c.Int("n")
		var nt int64
		for i := 0; i < n && len(r.Viol) < 6; i++ {
			d := newSeqDriver(r, rng.Intn(3), 1+rng.Intn(4), rng.Intn(2) == 0)
			for k := 0; k < 60 && !d.failed; k++ {
				switch x := rng.Intn(100); {
				case x < 40:
					d.put(int64(rng.Intn(6)), rng.Intn(3) != 0, rng.Intn(4) == 0)
				case x < 60:
					d.get(int64(rng.Intn(6)))
				case x < 75:
					d.peek(int64(rng.Intn(6)))
				case x < 82:
					d.lencap()
				case x < 88:
					d.resize(rng.Intn(5))
				case x < 94:
					d.drop(rng.Intn(3))
				default:
					d.freeN(rng.Intn(4))
				}
			}
			d.lencap()
			d.checkStats()
			d.done()
			nt++
			if i == 0 {
				h := d.hist
				if len(h) > 14 {
					h = h[:14]
				}
				var hs []string
				for _, x := range h {
					hs = append(hs, x.String())
				}
				r.Sample = map[string]any{"config": d.cfg, "history": hs}
			}
		}
		r.Evals, r.DistinctNT = int64(n), nt
		r.Count("sequential_histories", int64(n))
	case "concurrent":
		c14Concurrent(r, c)
	}
	return r
}

// ---- concurrent histories and the porcupine model ----

type cin struct {
	Op   string
	ID   int // block id for Put
	Base int64
	Used bool
	N    int
}

type cout struct {
	ID       int // block id returned (Get, evicted), -1 nil, -2 unknown block
	Retained bool
	Exists   bool
	Next     int64
	Len      int
}

func c14Model(kind int, init *cmodel) porcupine.Model {
	nm := porcupine.NondeterministicModel{
		Init: func() []interface{} { return []interface{}{init} },
		Step: func(st, in, out interface{}) []interface{} {
			m := st.(*cmodel)
			i, o := in.(cin), out.(cout)
			one := func(x *cmodel) []interface{} { return []interface{}{x} }
			switch i.Op {
			case "len":
				if o.Len == len(m.held) {
					return one(m)
				}
			case "peek":
				k := m.find(i.Base)
				if k < 0 {
					if !o.Exists {
						return one(m)
					}
				} else if o.Exists && o.Next == nextFor(i.Base, m.held[k].id) {
					return one(m)
				}
			case "get":
				k := m.find(i.Base)
				if k < 0 {
					if o.ID == -1 {
						return one(m)
					}
					return nil
				}
				if o.ID != m.held[k].id {
					return nil
				}
				if m.kind == 1 && m.held[k].used {
					return one(m)
				}
				n := m.clone()
				n.remove(k)
				return one(n)
			case "put":
				dup := m.find(i.Base)
				self := m.findID(i.ID) >= 0
				if !o.Retained {
					if o.ID != i.ID && !(o.ID == -1 && self) {
						return nil
					}
					if dup >= 0 || (len(m.held) >= m.cap && !i.Used) {
						return one(m)
					}
					return nil
				}
				if self || dup >= 0 {
					return nil
				}
				n := m.clone()
				if len(n.held) >= n.cap {
					if !i.Used {
						return nil
					}
					vi := n.findID(o.ID)
					if vi < 0 || !n.legalVictim(vi) {
						return nil
					}
					n.remove(vi)
				} else if o.ID != -1 {
					return nil
				}
				n.seq++
				n.held = append(n.held, cent{id: i.ID, base: i.Base, used: i.Used, seq: n.seq})
				return one(n)
			case "resize", "drop":
				n := m.clone()
				cnt := i.N
				if i.Op == "resize" {
					n.cap = i.N
					cnt = len(n.held) - i.N
				}
				if cnt > len(n.held) {
					cnt = len(n.held)
				}
				if cnt <= 0 {
					return one(n)
				}
				// every way of dropping cnt blocks that takes unused blocks first
				// and (LRU/FIFO) used blocks in Put order
				var res []interface{}
				var rec func(cur *cmodel, left int)
				seen := map[string]bool{}
				rec = func(cur *cmodel, left int) {
					if left == 0 {
						if k := cur.key(); !seen[k] {
							seen[k] = true
							res = append(res, cur)
						}
						return
					}
					for vi := range cur.held {
						if cur.legalVictim(vi) {
							nx := cur.clone()
							nx.remove(vi)
							rec(nx, left-1)
						}
					}
				}
				rec(n, cnt)
				return res
			}
			return nil
		},
		Equal: func(a, b interface{}) bool { return a.(*cmodel).key() == b.(*cmodel).key() },
		DescribeOperation: func(in, out interface{}) string {
			return fmt.Sprintf("%+v -> %+v", in, out)
		},
	}
	return nm.ToModel()
}

// slowBlock wraps a real block so that the accessors the caches call (inside
// their critical sections, or - if a change moved them - outside) sometimes
// yield, spin or sleep: goroutines then queue up at the cache's lock and run
// the moment it is released, which is when a window between two critical
// sections is open. The unexported methods of bgzf.Block are promoted from the
// embedded interface value.
type slowBlock struct {
	bgzf.Block
	d *pauser
}

type pauser struct {
	n      uint64
	level  int
	pauses int64
}

func (p *pauser) pause() {
	if p == nil || p.level == 0 {
		return
	}
	x := atomic.AddUint64(&p.n, 0x9e3779b97f4a7c15)
	x ^= x >> 29
	switch (x * 0xbf58476d1ce4e5b9) >> 60 {
	case 0, 1:
		runtime.Gosched()
		atomic.AddInt64(&p.pauses, 1)
	case 2:
		for s := 0; s < 400; s++ {
			atomic.AddUint64(&p.n, 0)
		}
		atomic.AddInt64(&p.pauses, 1)
	case 3:
		if p.level >= 2 {
			time.Sleep(20 * time.Microsecond)
			atomic.AddInt64(&p.pauses, 1)
		}
	}
}

func (s *slowBlock) Base() int64     { s.d.pause(); return s.Block.Base() }
func (s *slowBlock) Used() bool      { s.d.pause(); return s.Block.Used() }
func (s *slowBlock) NextBase() int64 { s.d.pause(); return s.Block.NextBase() }

// lightBlock stands in for a block where only Base/Used/NextBase are called
// (the caches call nothing else); it carries no 64 KiB buffer.
type lightBlock struct {
	bgzf.Block
	base int64
	used bool
}

func (l *lightBlock) Base() int64     { return l.base }
func (l *lightBlock) Used() bool      { return l.used }
func (l *lightBlock) NextBase() int64 { return l.base + 100 }

func c14Capacity(r *core.Result, c core.Case) {
	kind, n := c.Int("kind"), c.Int("cap")
	cc, _ := c14New(kind, n, false)
	cfg := fmt.Sprintf("%s(%d)", cacheKinds[kind], n)
	r.Sample = map[string]any{"config": cfg, "kind": "capacity"}
	if cc.Cap() != n {
		r.Violate(cacheKinds[kind]+"|capacity|cap", "%s: Cap() = %d", cfg, cc.Cap())
		return
	}
	for i := 0; i < n; i++ {
		ev, ret := cc.Put(&lightBlock{base: int64(i) * 1000, used: i%3 != 0})
		if ev != nil || !ret {
			r.Violate(cacheKinds[kind]+"|capacity|refused-with-room", "%s: Put number %d returned (evicted=%v, retained=%v) although only %d of %d slots are taken", cfg, i+1, ev != nil, ret, i, n)
			return
		}
	}
	if cc.Len() != n {
		r.Violate(cacheKinds[kind]+"|capacity|len", "%s: Len() = %d after %d retained Puts", cfg, cc.Len(), n)
		return
	}
	for i := 0; i < n; i += 97 {
		if ok, _ := cc.Peek(int64(i) * 1000); !ok {
			r.Violate(cacheKinds[kind]+"|capacity|lost", "%s: block %d is not held although nothing was evicted", cfg, i)
			return
		}
	}
	if ev, ret := cc.Put(&lightBlock{base: -5, used: true}); ev == nil || !ret || cc.Len() != n {
		r.Violate(cacheKinds[kind]+"|capacity|full", "%s: Put of a used block into the full cache returned (evicted=%v, retained=%v), Len() = %d", cfg, ev != nil, ret, cc.Len())
		return
	}
	if !cache.Free(n, cc) || cc.Len() != 0 {
		r.Violate(cacheKinds[kind]+"|capacity|free", "%s: Free(%d) did not empty the cache (Len() = %d)", cfg, n, cc.Len())
	}
	r.Evals, r.DistinctNT = 1, 1
	r.Count("capacity_cases", 1)
}

func c14Concurrent(r *core.Result, c core.Case) {
	kind, capn, stats := c.Int("kind"), c.Int("cap"), c.Int("stats") == 1
	G, nops := c.Int("g"), c.Int("ops")
	cfg := fmt.Sprintf("%s(%d) stats=%v goroutines=%d ops=%d procs=%d", cacheKinds[kind], capn, stats, G, nops, c.Int("procs"))
	cc, _ := c14New(kind, capn, stats)
	ps := &pauser{level: int(c.Seed>>3) % 3}
	var ctr, spin int64
	var idc int64
	var recycled, wrongPeek, ready int64
	var wrongPeekAt atomic.Value
	var mu sync.Mutex
	ids := map[bgzf.Block]int{}
	var ops []porcupine.Operation
	idOf := func(b bgzf.Block) int {
		if b == nil {
			return -1
		}
		mu.Lock()
		defer mu.Unlock()
		if id, ok := ids[b]; ok {
			return id
		}
		return -2
	}
	var wg sync.WaitGroup
	start := make(chan struct{})
	withProcs(c.Int("procs"), func() {
		for g := 0; g < G; g++ {
			wg.Add(1)
			go func(g int) {
				defer wg.Done()
				rng := rand.New(rand.NewSource(core.SubSeed(c.Seed, "g", g)))
				<-start
				// start together: wake-up latency is longer than a short history
				atomic.AddInt64(&ready, 1)
				for atomic.LoadInt64(&ready) < int64(G) {
					runtime.Gosched()
				}
				var loans []bgzf.Block
				var loanIn []cin
				var local []porcupine.Operation
				// free: blocks Put handed back (evicted, or refused); they are
				// this goroutine's now and are overwritten with another
				// member before being offered again, as the reader does
				type fresh struct {
					b  bgzf.Block
					in cin
				}
				var free []fresh
				for k := 0; k < nops; k++ {
					var in cin
					var out cout
					var call, ret int64
					switch x := rng.Intn(100); {
					case x < 42:
						var b bgzf.Block
						if len(loans) > 0 && rng.Intn(3) == 0 {
							b = loans[len(loans)-1]
							in = loanIn[len(loanIn)-1]
							loans, loanIn = loans[:len(loans)-1], loanIn[:len(loanIn)-1]
						} else {
							id := int(atomic.AddInt64(&idc, 1))
							base := int64(rng.Intn(4))
							used := rng.Intn(3) != 0
							if len(free) > 0 && rng.Intn(3) != 0 {
								b, in = free[len(free)-1].b, free[len(free)-1].in
								free = free[:len(free)-1]
							} else {
								b = &slowBlock{Block: bgzf.VerifNewBlock(base, nextFor(base, id), used, []byte{byte(id)}), d: ps}
								mu.Lock()
								ids[b] = id
								mu.Unlock()
								in = cin{Op: "put", ID: id, Base: base, Used: used}
							}
						}
						call = atomic.AddInt64(&ctr, 1)
						ev, ret2 := cc.Put(b)
						ret = atomic.AddInt64(&ctr, 1)
						out = cout{ID: idOf(ev), Retained: ret2}
						// (not with FIFO: its Get leaves a used block in the cache,
						// so a block handed back here may still be on loan to
						// another goroutine, which will Put it back as it was)
						if ev != nil && (ev != b || !ret2) && cacheKinds[kind] != "FIFO" {
							// overwritten at once, as the reader's decompressor does
							id := int(atomic.AddInt64(&idc, 1))
							base := int64(rng.Intn(4))
							used := rng.Intn(3) != 0
							bgzf.VerifRebase(ev.(*slowBlock).Block, base, nextFor(base, id), used, []byte{byte(id)})
							atomic.AddInt64(&recycled, 1)
							mu.Lock()
							ids[ev] = id
							mu.Unlock()
							free = append(free, fresh{ev, cin{Op: "put", ID: id, Base: base, Used: used}})
						}
					case x < 65:
						in = cin{Op: "get", Base: int64(rng.Intn(4))}
						call = atomic.AddInt64(&ctr, 1)
						b := cc.Get(in.Base)
						ret = atomic.AddInt64(&ctr, 1)
						out = cout{ID: idOf(b)}
						if b != nil {
							if b.Base() != in.Base {
								out.ID = -2
							}
							loans = append(loans, b)
							loanIn = append(loanIn, cin{Op: "put", ID: out.ID, Base: b.Base(), Used: b.Used()})
						}
					case x < 80:
						in = cin{Op: "peek", Base: int64(rng.Intn(4))}
						call = atomic.AddInt64(&ctr, 1)
						ex, next := cc.Peek(in.Base)
						ret = atomic.AddInt64(&ctr, 1)
						out = cout{Exists: ex, Next: next}
						if ex && (next <= in.Base || next > in.Base+60000) {
							atomic.AddInt64(&wrongPeek, 1)
							wrongPeekAt.Store(fmt.Sprintf("Peek(%d) = (true, %d): that is the next-offset of a member with base %d..", in.Base, next, next-60000))
						}
					case x < 90:
						in = cin{Op: "len"}
						call = atomic.AddInt64(&ctr, 1)
						l := cc.Len()
						ret = atomic.AddInt64(&ctr, 1)
						out = cout{Len: l}
					case x < 95:
						in = cin{Op: "resize", N: 1 + rng.Intn(3)}
						call = atomic.AddInt64(&ctr, 1)
						cc.Resize(in.N)
						ret = atomic.AddInt64(&ctr, 1)
					default:
						in = cin{Op: "drop", N: rng.Intn(3)}
						call = atomic.AddInt64(&ctr, 1)
						cc.Drop(in.N)
						ret = atomic.AddInt64(&ctr, 1)
					}
					local = append(local, porcupine.Operation{ClientId: g, Input: in, Call: call, Output: out, Return: ret})
					switch rng.Intn(16) {
					case 0:
						runtime.Gosched()
					case 1, 2:
						// drift apart by a few hundred nanoseconds
						for s := rng.Intn(300); s > 0; s-- {
							atomic.AddInt64(&spin, 1)
						}
					}
				}
				mu.Lock()
				ops = append(ops, local...)
				mu.Unlock()
			}(g)
		}
		close(start)
		wg.Wait()
	})
	// overlap measure
	sort.Slice(ops, func(i, j int) bool { return ops[i].Call < ops[j].Call })
	overlaps := 0
	for i := 1; i < len(ops); i++ {
		if ops[i].Call < ops[i-1].Return {
			overlaps++
		}
	}
	r.Count("concurrent_ops", int64(len(ops)))
	r.Count("concurrent_blocks_recycled", recycled)
	r.Count("pauses_inside_cache_calls", ps.pauses)
	cfg += fmt.Sprintf(" pause-level=%d", ps.level)
	if wrongPeek > 0 {
		r.Violate(cacheKinds[kind]+"|peek-wrong-block|concurrent", "%s: %d Peek calls named a member that cannot have the requested base, e.g. %v", cfg, wrongPeek, wrongPeekAt.Load())
	}
	if c.Int("stress") == 1 {
		wrongGet := 0
		for _, o := range ops {
			if o.Input.(cin).Op == "get" && o.Output.(cout).ID == -2 {
				wrongGet++
			}
		}
		if wrongGet > 0 {
			r.Violate(cacheKinds[kind]+"|get-wrong-block|concurrent", "%s: %d Get calls returned a block of another base or an unknown block", cfg, wrongGet)
		}
		if l, cp := cc.Len(), cc.Cap(); l > cp {
			r.Violate(cacheKinds[kind]+"|len-exceeds-cap|concurrent", "%s: after the run Len() = %d > Cap() = %d", cfg, l, cp)
		}
		r.Count("stress_runs", 1)
		r.Count("stress_ops", int64(len(ops)))
		r.Nontrivial = overlaps >= 2
		r.Sample = map[string]any{"config": cfg, "operations": len(ops), "overlapping_pairs": overlaps, "stress": true}
		return
	}
	r.Count("overlapping_op_pairs", int64(overlaps))
	r.Nontrivial = overlaps >= 2
	model := c14Model(kind, &cmodel{kind: kind, cap: capn})
	res, _ := porcupine.CheckOperationsVerbose(model, ops, 90*time.Second)
	switch res {
	case porcupine.Illegal:
		var lines []string
		for i, o := range ops {
			if i >= 60 {
				lines = append(lines, "…")
				break
			}
			lines = append(lines, fmt.Sprintf("g%d [%d,%d] %+v -> %+v", o.ClientId, o.Call, o.Return, o.Input, o.Output))
		}
		r.Violate(cacheKinds[kind]+"|not-linearizable", "%s: the recorded history of %d operations has no linearization against the sequential cache model\n%s", cfg, len(ops), strings.Join(lines, "\n"))
	case porcupine.Unknown:
		r.NotJudged = "linearizability-checker-timeout"
		r.Count("checker_timeouts", 1)
	default:
		r.Count("linearizable_histories", 1)
	}
	r.Sample = map[string]any{"config": cfg, "operations": len(ops), "overlapping_pairs": overlaps}
}
