package prop

import (
	"bytes"
	"fmt"
	"io"
	"math/rand"

	"github.com/biogo/hts/fai"

	"verif/core"
	"verif/mon"
)

func init() {
	core.Register(&core.Prop{
		ID:    "C19",
		Level: "exploration",
		Rule: "a case is a generated FASTA file: 1..6 records, line widths 1..80, LF or CRLF, last line shorter or equal, with/without final newline, optional description after the name, optional blank lines between records, names over [A-Za-z0-9_.|:-], non-empty sequences; the generator records each sequence's bases and byte layout as it writes them (the oracle; no FASTA parsing shared with the library). " +
			"Checks: fai.NewIndex reports the true Length/Start/BasesPerLine/BytesPerLine of every record; the file reaches NewIndex through one of six reader kinds (plain, non-seekable, short reads, last bytes returned together with io.EOF whole or in chunks); ReadFrom(WriteTo(idx)) equals idx; WriteTo to a destination whose k-th write fails (k=1..3) returns the error or has delivered everything; for EVERY (name,start,end) with 0<=start<=end<=length when length <= 40, and 60 sampled triples otherwise, File.SeqRange read with buffer sizes {1,2,7,4096} returns exactly bases[start:end] then io.EOF; File.Seq returns the whole sequence. " +
			"Non-trivial: >= 2 records or a multi-line sequence; distinct = distinct files.",
		Floor:       map[string]int{"quick": 300, "thorough": 6000},
		Plan:        c19Plan,
		Run:         c19Run,
		Assumptions: []string{"names are printable ASCII without blanks (a FASTA name ends at the first blank)", "all lines of a sequence but the last have the same width (well-formed FASTA)"},
		TimeoutS:    map[string]int{"quick": 900, "thorough": 3400},
	})
}

func c19Plan(seed int64, tier string) []core.Case {
	n := 400
	if tier == "thorough" {
		n = 8000
	}
	var cs []core.Case
	for i := 0; i < n; i += 20 {
		cs = append(cs, core.Case{Kind: "fasta", Seed: core.SubSeed(seed, "c19", i), P: map[string]int64{"n": 20}})
	}
	return cs
}

type faRec struct {
	name  string
	bases []byte
	start int64
	bpl   int // bases per line
	Bpl   int // bytes per line
}

func c19File(rng *rand.Rand) ([]byte, []faRec, string) {
	// printable ASCII without blank: a FASTA name ends at the first blank,
	// everything else (quotation marks, '#', ',', '>' after the first
	// character, ...) belongs to it
	nameChars := "ABCDEFGHIJKLMNOPQRSTUVWXYZabcdefghijklmnopqrstuvwxyz0123456789_.|:-"
	if rng.Intn(3) == 0 {
		nameChars += "\"'#,;=()[]{}<>!$%&*+/?@\\^`~"
	}
	var buf bytes.Buffer
	var recs []faRec
	eol := []string{"\n", "\r\n"}[rng.Intn(2)]
	nrec := 1 + rng.Intn(6)
	finalNL := rng.Intn(3) != 0
	blanks := rng.Intn(3) == 0
	used := map[string]bool{}
	for i := 0; i < nrec; i++ {
		var name string
		for {
			b := make([]byte, 1+rng.Intn(10))
			for k := range b {
				b[k] = nameChars[rng.Intn(len(nameChars))]
			}
			name = string(b)
			if !used[name] {
				used[name] = true
				break
			}
		}
		buf.WriteString(">" + name)
		if rng.Intn(2) == 0 {
			// the name ends at the first blank, whichever kind it is and
			// whatever follows
			buf.WriteString([]string{" ", "\t"}[rng.Intn(2)] + []string{"some description ", "len=10\tsrc=lab ", "a\t \tb ", "x y\tz "}[rng.Intn(4)] + fmt.Sprint(i))
		}
		buf.WriteString(eol)
		width := 1 + rng.Intn(80)
		var l int
		long := rng.Intn(40) == 0
		if long {
			// an unwrapped sequence: one line of more than 64 KiB
			width = 66000 + rng.Intn(70000)
		}
		switch rng.Intn(5) {
		case 0:
			l = 1 + rng.Intn(width) // single line
		case 1:
			l = width * (1 + rng.Intn(4)) // last line full
		default:
			l = 1 + rng.Intn(300)
			if long {
				l = width + rng.Intn(width)
			}
		}
		bases := make([]byte, l)
		for k := range bases {
			bases[k] = "ACGTNacgtn"[rng.Intn(10)]
		}
		rec := faRec{name: name, bases: bases, start: int64(buf.Len())}
		first := true
		for p := 0; p < l; p += width {
			e := p + width
			if e > l {
				e = l
			}
			buf.Write(bases[p:e])
			last := e == l && i == nrec-1
			lineBytes := e - p
			if !(last && !finalNL) {
				buf.WriteString(eol)
				lineBytes += len(eol)
			}
			if first {
				rec.bpl, rec.Bpl = e-p, lineBytes
				first = false
			}
		}
		recs = append(recs, rec)
		if blanks && i < nrec-1 {
			for k := rng.Intn(3); k > 0; k-- {
				buf.WriteString(eol)
			}
		}
	}
	desc := fmt.Sprintf("records=%d eol=%q final-newline=%v blank-lines=%v", nrec, eol, finalNL, blanks)
	return buf.Bytes(), recs, desc
}

func c19Run(c core.Case) *core.Result {
	r := core.NewResult()
	rng := c.Rng()
	n := c.Int("n")
	var nt int64
	for i := 0; i < n && len(r.Viol) < 5; i++ {
		data, recs, desc := c19File(rng)
		show := string(data)
		if len(show) > 400 {
			show = show[:400] + "…"
		}
		if i == 0 {
			r.Sample = map[string]any{"layout": desc, "file": show}
		}
		multi := len(recs) >= 2
		for _, rec := range recs {
			if len(rec.bases) > rec.bpl {
				multi = true
			}
		}
		if multi {
			nt++
		}
		pv, st := core.Recover(func() {
			// the source is a plain reader, one that cannot seek, one that
			// returns short reads, or one that returns its last bytes together
			// with io.EOF (whole or in chunks), as compress/gzip and network
			// bodies do
			var src io.Reader
			sk := rng.Intn(6)
			switch sk {
			case 4:
				src = &eagerEOF{b: data, max: 1 + rng.Intn(200)}
			case 5:
				src = &eagerEOF{b: data, max: 4096}
			default:
				src = wrapSource(data, sk, rng)
			}
			r.Count(fmt.Sprintf("newindex_source_kind_%d", sk), 1)
			idx, err := fai.NewIndex(src)
			if err != nil {
				r.Violate("newindex|error", "%s: NewIndex on a well-formed file: %v\n%q", desc, err, show)
				return
			}
			if len(idx) != len(recs) {
				r.Violate("newindex|count", "%s: %d records indexed, %d written\n%q", desc, len(idx), len(recs), show)
				return
			}
			for _, w := range recs {
				g, ok := idx[w.name]
				if !ok {
					r.Violate("newindex|missing", "%s: sequence %q is not in the index\n%q", desc, w.name, show)
					return
				}
				if g.Name != w.name || g.Length != len(w.bases) || g.Start != w.start || g.BasesPerLine != w.bpl || g.BytesPerLine != w.Bpl {
					cls := "layout"
					if g.Start != w.start {
						cls = "start"
					}
					r.Violate("newindex|"+cls, "%s: sequence %q indexed as length=%d start=%d bases/line=%d bytes/line=%d, written length=%d start=%d bases/line=%d bytes/line=%d\n%q", desc, w.name, g.Length, g.Start, g.BasesPerLine, g.BytesPerLine, len(w.bases), w.start, w.bpl, w.Bpl, show)
					return
				}
			}
			var out bytes.Buffer
			if err := fai.WriteTo(&out, idx); err != nil {
				r.Violate("writeto|error", "%s: WriteTo: %v", desc, err)
				return
			}
			// a destination that fails at its k-th write (accepting half of
			// it first, sometimes): WriteTo returns the error, or everything
			// that was to be written is there
			for k := 1; k <= 3; k++ {
				fw := &mon.RecWriter{FailAt: k, Partial: rng.Intn(2) == 0}
				if err := fai.WriteTo(fw, idx); err == nil && !bytes.Equal(fw.Bytes(), out.Bytes()) {
					r.Violate("writeto|fault-swallowed", "%s: WriteTo returned nil although write %d of the destination failed; %d of %d bytes were delivered", desc, k, fw.Len(), out.Len())
					return
				} else if err != nil {
					r.Count("writeto_fault_reported", 1)
				}
			}
			idx2, err := fai.ReadFrom(bytes.NewReader(out.Bytes()))
			if err != nil {
				r.Violate("readfrom|error", "%s: ReadFrom of WriteTo's output: %v\n%q", desc, err, out.String())
				return
			}
			if len(idx2) != len(idx) {
				r.Violate("readfrom|differs", "%s: index re-read has %d records, written %d", desc, len(idx2), len(idx))
				return
			}
			for k, v := range idx {
				if idx2[k] != v {
					r.Violate("readfrom|differs", "%s: record %q re-read as %+v, written %+v", desc, k, idx2[k], v)
					return
				}
			}
			f := fai.NewFile(bytes.NewReader(data), idx)
			for _, w := range recs {
				L := len(w.bases)
				type tr struct{ s, e int }
				var trs []tr
				if L <= 40 {
					for s := 0; s <= L; s++ {
						for e := s; e <= L; e++ {
							trs = append(trs, tr{s, e})
						}
					}
				} else {
					for k := 0; k < 60; k++ {
						s := rng.Intn(L + 1)
						e := s + rng.Intn(L-s+1)
						switch rng.Intn(5) {
						case 0:
							s = s / w.bpl * w.bpl // line start
						case 1:
							e = (e/w.bpl + 1) * w.bpl // line end
							if e > L {
								e = L
							}
						}
						if s > e {
							s = e
						}
						trs = append(trs, tr{s, e})
					}
					trs = append(trs, tr{0, L}, tr{L, L}, tr{0, 0})
				}
				for ti, t := range trs {
					bs := []int{1, 2, 7, 4096}[ti%4]
					sq, err := f.SeqRange(w.name, t.s, t.e)
					if err != nil {
						r.Violate("seqrange|error", "%s: SeqRange(%q,%d,%d): %v", desc, w.name, t.s, t.e, err)
						return
					}
					got, rerr := readWithBuf(sq, bs, L+10)
					if rerr != nil || !bytes.Equal(got, w.bases[t.s:t.e]) {
						r.Violate("seqrange|wrong-bases", "%s: SeqRange(%q,%d,%d) with %d-byte reads returned %q (err %v), the file holds %q\n%q", desc, w.name, t.s, t.e, bs, trunc(got, 60), rerr, trunc(w.bases[t.s:t.e], 60), show)
						return
					}
					r.Count("ranges_read", 1)
				}
				sq, err := f.Seq(w.name)
				if err != nil {
					r.Violate("seq|error", "%s: Seq(%q): %v", desc, w.name, err)
					return
				}
				got, rerr := readWithBuf(sq, 4096, L+10)
				if rerr != nil || !bytes.Equal(got, w.bases) {
					r.Violate("seq|wrong-bases", "%s: Seq(%q) returned %d bases (err %v), the file holds %d", desc, w.name, len(got), rerr, L)
					return
				}
			}
		})
		if pv != nil {
			r.Violate("panic|fai|"+core.TopLibFrame(st), "%s: %v\n%q", desc, pv, show)
		}
	}
	r.Evals, r.DistinctNT = int64(n), nt
	r.FP = core.Hash(c.Seed)
	r.Nontrivial = true
	r.Count("fasta_files", int64(n))
	return r
}

// readWithBuf reads to io.EOF with a fixed buffer size; it fails if the
// reader returns more than limit bytes or makes no progress.
func readWithBuf(rd io.Reader, bs, limit int) ([]byte, error) {
	var out []byte
	buf := make([]byte, bs)
	idle := 0
	for {
		n, err := rd.Read(buf)
		out = append(out, buf[:n]...)
		if err == io.EOF {
			return out, nil
		}
		if err != nil {
			return out, err
		}
		if len(out) > limit {
			return out, fmt.Errorf("more than %d bytes", limit)
		}
		if n == 0 {
			idle++
			if idle > 3 {
				return out, fmt.Errorf("no progress")
			}
		} else {
			idle = 0
		}
	}
}
