#!/bin/bash
# Offline setup: build the harness (plain and -race) from files on disk.
export GOFLAGS=-mod=mod GOPROXY=off GOSUMDB=off GOTOOLCHAIN=local
cd "$(dirname "$0")/harness" || exit 1
mkdir -p ../.bin ../evidence
CGO_ENABLED=0 go build -tags verif -o ../.bin/vcheck ./cmd/vcheck || exit 1
go build -race -tags verif -o ../.bin/vcheck-race ./cmd/vcheck || exit 1
echo setup ok
