#!/bin/bash
# seedrun.sh <patch.diff> <tier> <Cxx> [Cyy ...] : apply a seeded change to /repo, run the checks, undo it.
PATCH="$1"; TIER="$2"; shift 2
[ -z "$(git -C /repo status --porcelain)" ] || { echo "/repo not clean"; exit 2; }
git -C /repo apply "$PATCH" || { echo "patch does not apply"; exit 2; }
trap 'git -C /repo checkout -- . ; git -C /repo clean -fdq' EXIT
for P in "$@"; do
  VERIF_NOEVIDENCE=1 /verif/check "$P" "$TIER" > /tmp/seedrun.$P.log 2>&1; RC=$?
  echo "$P rc=$RC: $(grep -c '^VIOLATION' /tmp/seedrun.$P.log) violation lines; $(grep -m2 'sig:' /tmp/seedrun.$P.log | tr '\n' ' ')"
done
