#!/usr/bin/env python3
"""Regenerates the marked tables of DESIGN.md from known_findings.json, seeded/*/meta.json
and evidence/*.json."""
import json, glob, os, re
ROOT = os.path.dirname(os.path.dirname(os.path.abspath(__file__)))
s = open(ROOT + "/DESIGN.md").read()

def put(name, text):
    global s
    rep = "<!-- BEGIN:%s -->\n%s\n<!-- END:%s -->" % (name, text, name)
    s = re.sub(r"<!-- BEGIN:%s -->.*?<!-- END:%s -->" % (name, name), lambda m: rep, s, flags=re.S)

f = json.load(open(ROOT + "/known_findings.json"))["findings"]
rows = ["| property | repair commit | what failed (witness) |", "|---|---|---|"]
for e in f:
    rec = e.get("record", "")
    m = re.match(r"fixed: property=(\S+) (\S+) (.*)", rec, re.S)
    if m:
        rows.append("| %s | %s | %s |" % (m.group(1), m.group(2), m.group(3).replace("|", "\\|").replace("\n", " ")))
    else:
        rows.append("| %s | (open) | %s |" % (e["property"], e["what"]))
put("findings", "\n".join(rows))

rows = ["| seeded change | property | what it needs in order to manifest | result of the quick checks |", "|---|---|---|---|"]
for d in sorted(glob.glob(ROOT + "/seeded/C*")):
    m = json.load(open(d + "/meta.json"))
    needs = m.get("needs_short", "see README.md")
    det = m.get("detected_by", {})
    if isinstance(det, str):
        det = {}
    res = "; ".join("%s: %s" % (k, v.replace("|", "\\|")[:160]) for k, v in det.items())
    if m.get("neutralised_by"):
        res = "no longer changes behaviour after repair %s (the state it relied on was itself a defect)" % m["neutralised_by"]
    elif m.get("note") and not res:
        res = m["note"]
    rows.append("| %s | %s | %s | %s |" % (m["id"], m["property"], needs, res))
put("seeds", "\n".join(rows))

rows = ["| property | level | quick: wall s, evaluations, distinct non-trivial | thorough (last recorded) |", "|---|---|---|---|"]
th = {}
tp = ROOT + "/tools/thorough_runs.json"
if os.path.exists(tp):
    th = json.load(open(tp))
for p in ["C%02d" % i for i in range(1, 21)]:
    ep = ROOT + "/evidence/%s.json" % p
    q = ""
    lvl = ""
    if os.path.exists(ep):
        e = json.load(open(ep))
        lvl = e["level"]
        if e["tier"] == "quick":
            q = "%.0f s, %d, %d" % (e["wall_s"], e["coverage"]["evaluations"], e["coverage"]["distinct_nontrivial"])
    rows.append("| %s | %s | %s | %s |" % (p, lvl, q, th.get(p, "")))
put("cost", "\n".join(rows))
open(ROOT + "/DESIGN.md", "w").write(s)
print("tables regenerated")
