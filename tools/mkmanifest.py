#!/usr/bin/env python3
"""Generates /verif/MANIFEST.json from the table below. Run after adding a check."""
import json, subprocess, os
ROOT = os.path.dirname(os.path.dirname(os.path.abspath(__file__)))
RACE = "Go race detector on the concurrent cases; "
# id -> (level, technique, text, note, design_ref)
CHECKS = {
 "C20": ("exploration", "reference-model monitor (independent spec codec) over enumerated/stratified values; truncation sweep of spec-built cram streams; race detector on concurrent first use",
         "Every generated value is pushed through the real Encode/Len/Decode and compared with an independent codec written from the CRAM spec tables; thorough enumerates all 2^32 int32 values, int64 is stratified over all nine length classes; decode totality over all first bytes x lengths 0..9; the cram stream readers are fed spec-built containers through whole and short-reading sources (1 byte, 1-11 bytes, random, last bytes with io.EOF, 16-byte bufio) and every decoded header field is compared with the encoded value; every proper prefix of a stream must deliver the complete containers and then report a failure; each child process starts with eight goroutines using the codecs at once (repeated under -race).",
         "Trusts oracle/tf8.go as a transcription of CRAM spec 2.3; LTF-8 domain (2^64) only sampled.", "3 C20"),
 "C17": ("exploration", "interval-arithmetic reference monitor over enumerated and random chunk lists",
         "Every provided merge strategy is applied to every begin-sorted chunk list of a small alphabet (complete enumeration up to length 3 quick / 5 thorough) and to random large lists; an independent interval-union oracle checks sortedness, coverage, the per-strategy clauses and idempotence.",
         "Input lists are begin-sorted with Begin<=End as the property states; random lists are a sample.", "3 C17"),
 "C16": ("exploration", "reference-model monitor: spec-transliterated and definition-based bin oracles, CIGAR arithmetic oracle",
         "Library End/Len/Bin/Lengths/IsValid and the BAI/CSI bin functions (via verif re-exports) are run on generated records and intervals and compared with two independent formulations; thorough enumerates the BAI tile-pair space for BinFor and all intervals of five small CSI geometries.",
         "OverlappingBinsFor is exhaustive only for spans <= 64 tiles (longer lists sampled); large CSI geometries sampled; B operation follows the library's documented table.", "3 C16"),
 "C01": ("exploration", "reference-model monitor (byte-buffer model) over generated write/read scripts; race detector; hook-widened schedules",
         "The real Writer and Reader are driven with generated write scripts and read patterns across level/wc/rd/source-reader kinds; every call result is compared with a byte-buffer model; concurrent configurations are repeated under -race and with seeded yields/sleeps at the library's suspension points, and the number of distinct observed interleavings is reported.",
         "Schedules are sampled, not enumerated; 'returns' is the Go runtime deadlock detector in plain children.", "3 C01"),
 "C02": ("exploration", "online checker of a flat-model trace specification over generated Seek/Read histories; race detector; runtime deadlock detector",
         "Files with arbitrary member layouts come from an independent BGZF encoder; every Seek/Read/ReadByte/Blocked step of a generated history is checked against a flat-data model including LastChunk translation and replay; rd in {0,1,2,3,8}, widened schedules, -race.",
         "Seek targets restricted to block start + offset <= block length (as the property states); schedules sampled.", "3 C02"),
 "C03": ("exploration", "differential monitor (cached vs uncached reader in lock-step) plus flat-model checker; race detector; runtime deadlock detector",
         "The C02 histories with SetCache at arbitrary points are executed in lock-step on a cached and an uncached reader; bytes, EOF condition, error class and raw LastChunk must agree per call and match the flat model, for LRU/FIFO/Random/StatsRecorder, capacities 1..6 and > file, rd<=1 (class A) and rd>1 (class B).",
         "Cache statistics are not compared; schedules sampled.", "3 C03"),
 "C08": ("exploration", "independent RFC1952/BGZF framing parser as output monitor; cross-configuration differential (determinism); race detector",
         "Every stream the underlying writer receives is walked by an independent parser (FEXTRA, BC subfield, sizes, CRC32/ISIZE, header fields), expanded with compress/gzip, compared across wc in {1,2,3,4,8}, and the EOF-marker <=> clean Close clause is checked under three terminations incl. failing last writes; a limit family sweeps member sizes across MaxBlockSize.",
         "Header settings are legal; schedules sampled.", "3 C08"),
 "C09": ("fault_enumeration", "fault injection at every underlying call index; Go runtime deadlock detector; goroutine-dump leak monitor; flat-model checker for returned bytes; race detector",
         "For each workload of a fixed family the underlying Read/ReadByte/Seek/Write calls of a clean run are counted and a fault (error, partial+error, seek error) is injected at every index k for every wc/rd, cache and delay setting; oracles: every call returns, no library goroutine after Close, errors surface and stay, returned bytes are the model's also after recovery by Seek.",
         "k is exhaustive per (workload, mode, configuration); schedules around the fault are sampled; hangs are decided only in plain (non-race) children.", "3 C09"),
 "C12": ("exploration", "recorded-history checker over snapshots taken inside the underlying writer (prefix / whole-block / durability invariants); race detector",
         "The underlying writer records the delivered length after every Write returns together with the bytes offered so far; an independent parser verifies each snapshot is a block boundary decoding to a prefix of the written data, Flush+Wait and Close durability, and bam.NewWriter header durability, with seeded write delays and hook-widened compressor schedules; a fifth of the cases make the k-th underlying write fail slowly and hold every nil return to its promise.",
         "Fault cases judge only what a nil return promises (Flush+Wait, NewWriter, Close); that a fault is reported at all is C09's clause; schedules sampled.", "3 C12"),
 "C14": ("exploration", "policy-level reference model over exhaustively enumerated short histories; porcupine linearizability check of recorded concurrent histories; runtime deadlock detector; race detector",
         "All operation sequences up to length 4 (quick) / 5 (thorough) over a 24-operation alphabet on LRU/FIFO/Random x capacity 1..3 x StatsRecorder are executed with reader-style block recycling and compared with a policy-level model; concurrent histories of 2-4 goroutines are recorded at the client boundary and checked with porcupine against the same model (nondeterministic drop victims), and repeated under -race; evicted blocks are overwritten and re-offered as the reader does (LRU, Random), blocks are wrapped so that the accessors the caches call yield/spin/sleep (lock convoys open the gaps between critical sections), and long stress runs are decided by the race detector and per-operation assertions.",
         "FIFO blocks are not recycled in concurrent histories (its Get leaves used blocks in the cache, so a handed-back block may be on loan elsewhere); a porcupine timeout is reported as not judged; Resize(0) not exercised.", "3 C14"),
 "C05": ("exploration", "independent BAM encoder as byte-level output monitor; field-by-field round-trip monitor incl. reference identity and buffer-retention re-check; checkptr build",
         "Generated headers and records covering the stated quantifier are written with the real bam.Writer; the gunzipped output is compared byte for byte with an encoder written from SAMv1 4.2 (bin field masked); the real bam.Reader must return equal records (identity of Ref/MateRef in the read header, aux byte for byte) under all Omit modes, wc/rd/levels, and a returned record is re-checked after the next Read.",
         "Unrepresentable records are not generated; records are literals, not built by sam.NewRecord.", "3 C05"),
 "C13": ("exploration", "reference-model monitor: known record offsets / flat data against chunk-bounded reads (SetChunk, Iterator, ChunkReader)",
         "BAM streams are encoded and cut into BGZF members by the independent encoders so that records end on, just before, just after and across member ends; LastChunk of every record is checked against the known offsets and every span i..j (all pairs for small files) and random chunk lists in any order must replay exactly; ChunkReader is driven with arbitrary non-record-aligned chunk lists, both End forms, touching and empty chunks, all buffer sizes; a third of the cases have a block cache on the reader.",
         "Chunk lists for ChunkReader are ordered and non-overlapping.", "3 C13"),
 "C10": ("fault_enumeration", "mutation enumeration (every truncation length, every position x value substitution) with a prefix/identity oracle from an independent parser",
         "For ten BGZF/BAM streams every cut length (small streams) and every single-byte substitution from the stated value sets is applied and the mutant is read with the real readers (rd 1 and 2); the oracle accepts failure, the original data, or for truncation a clean end only at a member (and record) boundary with everything before it returned and HasEOF false.",
         "Large streams are sampled away from member boundaries; a NewReader error counts as failure.", "3 C10"),
 "C06": ("exploration", "independent SAM formatter as output monitor; format/parse/format round-trip monitor; SAM-vs-BAM differential; checkptr build",
         "Generated text-expressible records are formatted with the real MarshalSAM (decimal and hex flags), compared with a formatter written from SAMv1 1.4/1.5, parsed back and compared field by field and line by line, pushed through a BAM round trip and re-formatted, and generated SAM texts (LF/CRLF, with/without final newline and header) are read with sam.Reader.",
         "FlagString is not parsed back; NaN and lower-case bases excluded; a lone '*' quality (phred 9 on a 1-base read) is ambiguous in SAM and not generated.", "3 C06"),
 "C07": ("exploration", "round-trip monitor (text and binary) plus structural-invariant monitor walked after every operation of generated edit histories",
         "Headers built through the public API are serialised as text and binary, parsed into fresh headers and compared (serialisations byte for byte, every exposed tag); random 30-operation edit histories over add/remove/rename/clone/merge/UnmarshalText/NewHeader are executed and after every operation every live header is walked for id==index, unique names and, for merges, owned links with matching name and length.",
         "URIs restricted to http/ftp/file schemes; whole-second dates; errors returned by edits are not judged.", "3 C07"),
 "C18": ("exploration", "multiset / ordering / provenance monitor over the (record, error) sequence returned by the real Merger; fault injection at record boundaries; child-process isolation",
         "k sorted inputs with equal/disjoint/overlapping reference lists whose name order differs from header order are merged with the real Merger for all four sort orders and a custom less; the returned sequence is checked for exactly-once delivery (by SAM line), declared order in terms of the merged header, same-input order, re-linked Ref/MateRef, and error-before-EOF when an input fails at record n.",
         "Inputs are sorted consistently with the merged header order (otherwise no sorted merge exists).", "3 C18"),
 "C19": ("exploration", "reference-model monitor: the generator's own record of bases and byte layout against NewIndex, WriteTo/ReadFrom and every SeqRange",
         "Generated FASTA files over the stated layout space are indexed with the real NewIndex and compared with the layout the generator recorded while writing; the index is written and re-read; every (start,end) range of short sequences and sampled ranges of long ones are read through File with four buffer sizes and compared with the recorded bases; NewIndex is fed through six source-reader kinds, WriteTo also into destinations whose k-th write fails.",
         "Well-formed FASTA only (uniform line width per sequence, no quotes/tabs in names).", "3 C19"),
 "C04": ("exploration", "brute-force overlap oracle over generated sorted record sets, chunk layouts and query sets; real-file differential through bam.Iterator",
         "Record sets biased to tile and bin-level edges are added to the real BAI, tabix and CSI indexes (six CSI geometries) with synthetic and real (bam.Writer/Reader LastChunk) chunk layouts; every query of a generated set is answered by the real Chunks and an interval-union oracle checks that every overlapping record's chunk is covered, for the index as built, after every MergeChunks strategy, after write+read and after both; in real mode the chunks are iterated and overlapping record names must appear.",
         "Completeness only (extra chunks allowed); queries within the scheme's range.", "3 C04"),
 "C15": ("exploration", "round-trip monitor W(R(W(x)))==W(x) plus query/statistics differential and ground-truth statistics from the generator; independent byte-level index encoders; parallel-decode interference monitor under the race detector",
         "Indexes built by Add from the C04 generator (BAI, tabix with random header fields, CSI v1/v2 with aux) and index files assembled byte-wise by independent BAI/TBI/CSI encoders (references without bins, no pseudo-bin, no trailing count, unsorted bins) are written, re-read and re-written; bytes, every query answer, NumRefs/ReferenceStats/Unmapped must be identical, and statistics must equal the true counts; CSI schemes up to depth 10; independent files decoded by several goroutines at once from dribbling readers must come out as they do alone (also under -race).",
         "An index with no placed record (written as zero references, read back as nil) is skipped.", "3 C15"),
 "C11": ("exploration", "structure-aware mutation of valid encodings plus enumerated field/type families with recover()/process-death/step-count oracles in isolated, memory-limited, checkptr children; decoded values pushed through the library's own consumers",
         "Fifteen decoder entry points are fed valid encodings from the other properties' generators, structure-aware mutants of them and the repository's crasher corpora; a decode must return without panic or process death within 64*len+1024 underlying reads, and every value returned without error is passed to accessors, formatters, writers and index builders under recover. Enumerated families (every aux type and array element type byte x counts x payload shapes; every fixed-size BAM field x edge values x Omit modes; the same for SAM aux text) complement the random mutator; the BGZF entry also seeks to every member-like offset with read-ahead running. Children run under ulimit -v 1.5 GB; a death by one allocation of a declared size is counted, not judged, and the case resumes after the offending input; a slice grown step by step to the limit is a call that does not return (violation).",
         "Findings keyed by (entry point, innermost library function, class); bounded time = bounded underlying reads plus a wall-clock backstop reported as inconclusive; native Go fuzzing is not part of the registered commands.", "3 C11"),
}
NOT_BUILT = "check not built yet in this session; see DESIGN.md section 3 for the planned monitor"

def main():
    props = [json.loads(l) for l in open(os.path.join(ROOT, "properties.jsonl"))]
    hooks_commits = []
    try:
        out = subprocess.run(["git", "-C", "/repo", "log", "--format=%h %s"], capture_output=True, text=True).stdout
        hooks_commits = [l.split()[0] for l in out.splitlines() if l.split(" ", 1)[1].startswith("verif:")]
    except Exception:
        pass
    checks, na = [], []
    for p in props:
        pid = p["id"]
        if pid in CHECKS:
            level, tech, text, note, ref = CHECKS[pid]
            checks.append({
                "property_id": pid,
                "quick_cmd": "./check %s quick" % pid,
                "thorough_cmd": "./check %s thorough" % pid,
                "evidence_file": "/verif/evidence/%s.json" % pid,
                "replay_cmd_template": "./check %s --replay {path}" % pid,
                "engine": "vcheck",
                "level_claimed": {"category": level, "text": text, "design_ref": "DESIGN.md " + ref},
                "level_note": note,
                "technique": tech,
            })
        else:
            na.append({"property_id": pid, "reason": NOT_BUILT})
    m = {
        "version": 1,
        "setup_cmd": "./setup.sh",
        "hooks": {
            "guard": "verif",
            "enable": "go build -tags verif (the harness module in /verif/harness replaces github.com/biogo/hts with /repo and is rebuilt by ./check on every invocation)",
            "baseline_off_cmd": "/verif/tools/baseline_off.sh",
            "source_commits": hooks_commits,
            "add_only": True,
        },
        "engines": [{"name": "vcheck", "path": "/verif/harness", "serves_properties": sorted(CHECKS),
                     "kind_free_text": "Go harness: seeded case planner, child-process isolation with the Go runtime deadlock detector as 'returns' oracle, race-detector builds, reference-model / differential / history monitors"}],
        "checks": checks,
        "not_applicable": na,
        "notes": "All checks: `./check Cxx quick|thorough`; VERIF_SEED selects the case list. Exit 0 held, 1 violation (VIOLATION line + replay file), 2 inconclusive. known_findings.json lists fixed and open findings.",
    }
    json.dump(m, open(os.path.join(ROOT, "MANIFEST.json"), "w"), indent=1)
    print("claimed:", sorted(CHECKS), "not claimed:", len(na))

main()
