#!/bin/bash
# sweep.sh <tier> <seed...> : run every check of MANIFEST.json at the given tier for each seed; one line per run.
TIER="${1:-quick}"; shift
SEEDS="${@:-1}"
cd "$(dirname "$0")/.."
for S in $SEEDS; do
  for P in C01 C02 C03 C04 C05 C06 C07 C08 C09 C10 C11 C12 C13 C14 C15 C16 C17 C18 C19 C20; do
    OUT=$(VERIF_SEED=$S VERIF_NOEVIDENCE=${VERIF_NOEVIDENCE:-1} ./check $P $TIER 2>&1); RC=$?
    echo "seed=$S $P rc=$RC $(echo "$OUT" | grep -E "^$P tier" | cut -c1-170)"
    [ $RC -ne 0 ] && echo "$OUT" | grep -E "^VIOLATION|sig:|^INCONCLUSIVE" | head -6 | cut -c1-300
  done
done
