#!/bin/bash
# seedconfirm.sh <src_dir containing patch.diff + demo + README.md> <seed id, e.g. C17-m1> <property> <demo dest dir rel. to repo> <go test -run regex> [base commit]
# Confirms in a scratch worktree of /repo that: the patch applies and builds, the repository
# suite still passes with it (apart from the 3 always-failing tests), the demonstration fails
# with the patch and passes without it. Writes /verif/seeded/<id>/ on success.
set -u
export GOFLAGS=-mod=mod GOPROXY=off GOSUMDB=off GOTOOLCHAIN=local
SRC="$1"; ID="$2"; PROP="$3"; DEST="$4"; RUN="$5"; BASE="${6:-HEAD}"
WT=/tmp/confirm/$ID
rm -rf "$WT"; git -C /repo worktree prune
mkdir -p /tmp/confirm
git -C /repo worktree add --detach "$WT" "$BASE" >/dev/null 2>&1 || { echo "cannot create worktree"; exit 2; }
cleanup() { git -C /repo worktree remove --force "$WT" >/dev/null 2>&1; }
trap cleanup EXIT
cd "$WT"
DEMO=$(ls "$SRC"/*_test.go 2>/dev/null | head -1)
[ -n "$DEMO" ] || { echo "no demo test"; exit 2; }
cp "$DEMO" "$DEST/zz_seed_demo_test.go"
echo "== demo WITHOUT patch (must pass)"
go test -vet=off -count=1 -run "$RUN" "./$DEST/" > /tmp/confirm/$ID.nopatch.log 2>&1; A=$?
tail -3 /tmp/confirm/$ID.nopatch.log
PATCH="$SRC/patch.diff"; [ -f "$SRC/patch.rebased.diff" ] && PATCH="$SRC/patch.rebased.diff"
git apply "$PATCH" || { echo "patch does not apply"; exit 2; }
echo "== demo WITH patch (must fail)"
go test -vet=off -count=1 -run "$RUN" "./$DEST/" > /tmp/confirm/$ID.patch.log 2>&1; B=$?
tail -5 /tmp/confirm/$ID.patch.log
rm "$DEST/zz_seed_demo_test.go"
echo "== suite WITH patch"
go test -vet=off -count=1 ./... > /tmp/confirm/$ID.suite.log 2>&1
FAILS=$(grep -E '^--- FAIL' /tmp/confirm/$ID.suite.log | awk '{print $3}' | sort | tr '\n' ' ')
BUILDFAIL=$(grep -c 'build failed' /tmp/confirm/$ID.suite.log)
echo "suite failing tests: $FAILS (build failures: $BUILDFAIL)"
OK=1
[ $A -eq 0 ] || OK=0
[ $B -ne 0 ] || OK=0
[ "$FAILS" = "TestEOF TestHasEOF TestRead " ] || OK=0
[ "$BUILDFAIL" = 0 ] || OK=0
if [ $OK = 1 ]; then
  OUT=/verif/seeded/$ID; mkdir -p "$OUT"
  cp "$PATCH" "$OUT/patch.diff"; [ "$PATCH" != "$SRC/patch.diff" ] && cp "$SRC/patch.diff" "$OUT/patch.original.diff"; cp "$DEMO" "$OUT/$(basename $DEMO)"; cp "$SRC/README.md" "$OUT/README.md" 2>/dev/null
  python3 - "$OUT" "$ID" "$PROP" "$DEST" "$RUN" "$(git -C /repo rev-parse --short $BASE)" <<'PY'
import json,sys
out,id_,prop,dest,run,base=sys.argv[1:7]
json.dump({"id":id_,"property":prop,"base_commit":base,"demo_dir":dest,"demo_run":run,
 "confirmed":{"demo_without_patch":"pass","demo_with_patch":"fail","suite_with_patch":"only the 3 always-failing tests fail"},
 "ran":["go test -vet=off -count=1 -run '%s' ./%s/ (with and without patch)"%(run,dest),"go test -vet=off -count=1 ./... (with patch)"],
 "needs":"see README.md","detected_by":"(filled in after running the checks)"},open(out+"/meta.json","w"),indent=1)
PY
  echo "CONFIRMED -> $OUT"
else
  echo "NOT CONFIRMED (A=$A B=$B)"; exit 1
fi
