#!/bin/bash
# Runs the repository's own test suite with the verif build tag OFF and checks that
# every test of the pinned stable baseline (tools/baseline_tests.txt) passes.
export GOFLAGS=-mod=mod GOPROXY=off GOSUMDB=off GOTOOLCHAIN=local
HERE="$(cd "$(dirname "$0")" && pwd)"
OUT=$(mktemp)
(cd /repo && go build ./... && go test -json -vet=off -count=1 -timeout 25m ./...) > "$OUT" 2>&1
python3 - "$OUT" "$HERE/baseline_tests.txt" <<'PY'
import json,sys
passed=set(); failed=set()
for l in open(sys.argv[1]):
    try: e=json.loads(l)
    except Exception: continue
    t=e.get('Test')
    if not t or '/' in t: continue
    k=e['Package']+'::'+t
    if e.get('Action')=='pass': passed.add(k)
    if e.get('Action')=='fail': failed.add(k)
want=[l.strip() for l in open(sys.argv[2]) if l.strip()]
missing=[t for t in want if t not in passed]
print("baseline (guard off): %d/%d stable tests passed; other failing tests: %s"%(len(want)-len(missing),len(want),sorted(failed-set(want))))
if missing:
    print("NOT PASSING:",missing); sys.exit(1)
PY
RC=$?
rm -f "$OUT"
exit $RC
