#!/bin/bash
# seedrun2.sh <seed id under /verif/seeded> <tier> <Cxx> [Cyy ...]
# Applies the seeded change to a scratch worktree of /repo (never to /repo itself), runs the
# checks against it through VERIF_REPO, removes the worktree. Prints one line per check.
ID="$1"; TIER="$2"; shift 2
WT=/tmp/seedwt/$ID
rm -rf "$WT"; git -C /repo worktree prune; mkdir -p /tmp/seedwt
git -C /repo worktree add --detach "$WT" HEAD >/dev/null 2>&1 || { echo "cannot create worktree"; exit 2; }
trap 'git -C /repo worktree remove --force "$WT" >/dev/null 2>&1; rm -rf "/verif/.bin/alt-$(echo "$WT" | tr / _)"' EXIT
git -C "$WT" apply "/verif/seeded/$ID/patch.diff" || { echo "$ID: patch does not apply to HEAD"; exit 2; }
for P in "$@"; do
  VERIF_REPO="$WT" VERIF_NOEVIDENCE=1 /verif/check "$P" "$TIER" > /tmp/seedrun2.$ID.$P.log 2>&1; RC=$?
  echo "$ID $P rc=$RC $(grep -m3 'sig:' /tmp/seedrun2.$ID.$P.log | sed 's/ *sig: //' | tr '\n' ';')"
done
