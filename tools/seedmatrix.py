#!/usr/bin/env python3
"""Runs every confirmed seed in /verif/seeded against its property's quick check (and listed
neighbours) in a scratch worktree, records the outcome in meta.json and prints a table."""
import json, os, subprocess, sys, glob
EXTRA = {"C01-m1": ["C12"], "C13-m2": ["C02"], "C12-m2": ["C08"], "C08-m2": ["C09"], "C09-m2": ["C08"], "C04-m2": ["C17"],
         "C03-m2": ["C02"], "C15-m2": ["C04"], "C04-m1": ["C15"], "C10-m2": [], "C16-m1": [], "C05-m2": ["C13"],
         "C12-m3": ["C08", "C09"], "C12-m4": ["C08", "C01"], "C13-m3": ["C03"], "C13-m4": ["C02"], "C11-m3": ["C09", "C10"], "C15-m3": ["C11"], "C19-m3": ["C09"],
         "C13-m5": ["C03"], "C04-m5": ["C17"], "C03-m6": ["C14"], "C13-m6": ["C02"], "C10-m6": ["C08"], "C01-m5": ["C02"], "C01-m6": ["C08", "C12"], "C12-m5": ["C08"], "C05-m6": ["C01", "C12"],
         "C13-m8": ["C03"], "C03-m7": ["C13"], "C04-m8": ["C15"], "C09-m7": ["C08", "C12"], "C01-m7": ["C10"], "C01-m8": ["C08"], "C05-m7": ["C07"], "C07-m7": ["C05"]}
only = sys.argv[1:]
rows = []
for d in sorted(glob.glob("/verif/seeded/C*")):
    sid = os.path.basename(d)
    if only and sid not in only:
        continue
    meta = json.load(open(d + "/meta.json"))
    prop = meta["property"]
    checks = [prop] + EXTRA.get(sid, [])
    out = subprocess.run(["/verif/tools/seedrun2.sh", sid, "quick"] + checks, capture_output=True, text=True).stdout
    det = {}
    for l in out.splitlines():
        parts = l.split(None, 3)
        if len(parts) >= 3 and parts[0] == sid:
            rc = parts[2].split("=")[1]
            det[parts[1]] = {"rc": int(rc), "signatures": parts[3] if len(parts) > 3 else ""}
    meta["detected_by"] = {k: ("detected: " + v["signatures"] if v["rc"] == 1 else "not detected (rc=%d)" % v["rc"]) for k, v in det.items()}
    json.dump(meta, open(d + "/meta.json", "w"), indent=1)
    rows.append((sid, det))
    print(sid, {k: v["rc"] for k, v in det.items()}, flush=True)
print()
print("| seed | " + "check: result |")
for sid, det in rows:
    print("| %s | %s |" % (sid, "; ".join("%s %s" % (k, "DETECTED (" + v["signatures"].strip(";") + ")" if v["rc"] == 1 else "missed (rc=%d)" % v["rc"]) for k, v in det.items())))
