#!/usr/bin/env python3
"""Writes needs_short from tools/needs_short.json into every seeded/<id>/meta.json (seedmatrix.py
rewrites meta.json while it runs, so the texts are kept here)."""
import json, os
N = json.load(open('/verif/tools/needs_short.json'))
for k, v in N.items():
    p = '/verif/seeded/%s/meta.json' % k
    if os.path.exists(p):
        m = json.load(open(p)); m['needs_short'] = v; json.dump(m, open(p, 'w'), indent=1)
